//! C09: one-way delivery killed before its k-th file-system or pipe write call, for EVERY k of each scenario
//! (the shim's KILL_AT mode; the calls executed so far are read from the shim log of that very run), in all
//! three directions. For push the remote shell command is left to finish after its sender died.
//!
//! cases.txt: `<id> DST=<p:c;..> DS=<p>:<chunk+chunk|.>:<mtime>;.. SCHED=<delivery index>,.. PUSH=<0|1>`
//! impl.txt:  `<id> T=<p=c|p=~;..> ST=<staging bytes|~>,..`
use crate::hubctl::snapshot;
use crate::oneway::{run_sync, Ctx};
use crate::util::*;
use std::collections::BTreeMap;

type Tree = BTreeMap<String, Vec<u8>>;

fn read_tree(root: &str) -> Tree {
    snapshot(root).into_iter().collect()
}

fn write_tree(root: &str, t: &[(String, Vec<u8>, i64)]) {
    let _ = std::fs::remove_dir_all(root);
    std::fs::create_dir_all(root).unwrap();
    for (p, c, secs) in t {
        let full = format!("{}/{}", root, p);
        std::fs::create_dir_all(std::path::Path::new(&full).parent().unwrap()).unwrap();
        std::fs::write(&full, c).unwrap();
        let f = std::fs::File::options().write(true).open(&full).unwrap();
        f.set_modified(std::time::UNIX_EPOCH + std::time::Duration::from_secs(*secs as u64)).unwrap();
    }
}

fn unesc(p: &str) -> String {
    let b = p.as_bytes();
    let mut out = vec![];
    let mut i = 0;
    while i < b.len() {
        if b[i] == b'%' && i + 2 < b.len() + 1 && i + 3 <= b.len() {
            if let Ok(v) = u8::from_str_radix(&p[i + 1..i + 3], 16) {
                out.push(v);
                i += 3;
                continue;
            }
        }
        out.push(b[i]);
        i += 1;
    }
    String::from_utf8_lossy(&out).into_owned()
}

struct Scenario {
    src: Vec<(String, Vec<u8>, i64)>,
    dst: Vec<(String, Vec<u8>, i64)>,
    dir: u64, // 0 local 1 push 2 pull
    del: bool,
    /// checked by the oracles only (no model line): the delete phase of a push is not part of the step model
    oracle_only: bool,
}

/// calls executed by the killed process so far, mapped to model steps (delivery indices)
fn steps_from_log(log: &str, srcd: &str, dstd: &str, transfer: &[String], dir: u64, executed_upto: usize) -> (Vec<usize>, Vec<Vec<usize>>) {
    // returns (schedule, per-delivery chunk sizes as observed)
    let mut sched = vec![];
    let mut chunks: Vec<Vec<usize>> = transfer.iter().map(|_| vec![]).collect();
    let mut cur: Option<usize> = None;
    let mut mcount = 0usize;
    let idx_of_dst = |p: &str| -> Option<usize> { transfer.iter().position(|t| format!("{}/{}", dstd, t) == p) };
    for line in log.lines() {
        let f: Vec<&str> = line.splitn(7, ' ').collect();
        if f.len() < 6 {
            continue;
        }
        let (kind, call, a, b, extra) = (f[2], f[3], unesc(f[4]), unesc(f[5]), f.get(6).copied().unwrap_or("-"));
        if kind == "M" {
            mcount += 1;
            if mcount > executed_upto {
                break; // the call that was announced but never executed
            }
        }
        match call {
            "openr" => {
                if let Some(i) = transfer.iter().position(|t| format!("{}/{}", srcd, t) == a) {
                    cur = Some(i);
                }
            }
            "openw" if a.ends_with(".copia-tmp") => {
                if let Some(i) = idx_of_dst(a.trim_end_matches(".copia-tmp")) {
                    sched.push(i);
                    cur = Some(i);
                }
            }
            "write" | "copy_file_range" | "sendfile" | "splice" => {
                let n: usize = extra.trim().parse().unwrap_or(0);
                if a.ends_with(".copia-tmp") {
                    if let Some(i) = idx_of_dst(a.trim_end_matches(".copia-tmp")) {
                        // bytes actually transferred are known only from the file; a zero-length terminating call is dropped later
                        chunks[i].push(n);
                    }
                } else if a == "pipe" && dir == 1 {
                    if let Some(i) = cur {
                        chunks[i].push(n);
                    }
                }
            }
            "rename" if a.ends_with(".copia-tmp") => {
                if let Some(i) = idx_of_dst(&b) {
                    sched.push(i); // model: Staging [] -> Renamed
                }
            }
            "futimens" => {
                if let Some(i) = idx_of_dst(&a) {
                    sched.push(i); // Renamed -> Finished
                }
            }
            _ => {}
        }
    }
    (sched, chunks)
}

pub fn main(a: Args) -> i32 {
    let mut out = Out::new(&a.out);
    let copia = a.rest.iter().position(|x| x == "--copia").map(|i| a.rest[i + 1].clone()).expect("--copia");
    let standin = a.rest.iter().position(|x| x == "--standin").map(|i| a.rest[i + 1].clone()).expect("--standin");
    let shim = a.rest.iter().position(|x| x == "--shim").map(|i| a.rest[i + 1].clone()).expect("--shim");
    let absout = std::fs::canonicalize(&a.out).unwrap().to_string_lossy().into_owned();
    let bindir = format!("{}/bin", absout);
    std::fs::create_dir_all(&bindir).unwrap();
    let _ = std::os::unix::fs::symlink(&copia, format!("{}/copia", bindir));
    let cx = Ctx { copia, standin, bindir };
    let mut r = Rng::new(a.seed ^ 0xC09);
    let srcd = format!("{}/S", absout);
    let dstd = format!("{}/D", absout);
    let logf = format!("{}/shim.log", absout);
    let nscen = if a.tier == "thorough" { 60 } else { 9 };
    let sizes = [0usize, 1, 5000, 300_000, 700_000];
    let mut scenarios = vec![];
    // directed (always first): push of one multi-chunk file over an old version - the F7 witness
    // (before the repair a kill between two pipe writes published a truncated file)
    scenarios.push(Scenario {
        src: vec![("f".to_string(), (0..700_000usize).map(|j| (j % 251) as u8).collect(), 1_500_000_000), ("outside-plan".to_string(), b"untouched".to_vec(), 1_300_000_000)],
        dst: vec![("f".to_string(), b"OLD-VERSION".to_vec(), 1_400_000_000), ("outside-plan".to_string(), b"untouched".to_vec(), 1_300_000_000)],
        dir: 1,
        del: false,
        oracle_only: false,
    });
    // directed: push of a multi-chunk file over an old version of the same length
    scenarios.push(Scenario {
        src: vec![("f".to_string(), (0..300_000usize).map(|j| (j % 251) as u8).collect(), 1_500_000_000), ("outside-plan".to_string(), b"untouched".to_vec(), 1_300_000_000)],
        dst: vec![("f".to_string(), (0..300_000usize).map(|j| (j % 241) as u8).collect(), 1_400_000_000), ("outside-plan".to_string(), b"untouched".to_vec(), 1_300_000_000)],
        dir: 1,
        del: false,
        oracle_only: false,
    });
    for i in 0..nscen {
        let dir = (i % 3) as u64;
        let nfiles = 1 + r.below(3) as usize;
        let mut src = vec![];
        let mut dst = vec![];
        for k in 0..nfiles {
            let name = ["f", "sub/g", "h i"][k].to_string();
            let sz = if a.tier == "thorough" { *r.pick(&sizes) } else { *r.pick(&sizes[..4]) };
            let body: Vec<u8> = (0..sz).map(|j| (j % 251) as u8 ^ (k as u8)).collect();
            src.push((name.clone(), body.clone(), 1_500_000_000 + k as i64));
            match r.below(4) {
                0 => {}
                // an old version of the SAME length (other bytes, other mtime): only the bytes tell it from the new one once
                // something has touched its mtime
                3 if sz > 0 => { let b2: Vec<u8> = body.iter().map(|x| x ^ 0x5a).collect(); dst.push((name, b2, 1_400_000_000)); }
                1 | 3 => dst.push((name, b"OLD-VERSION".to_vec(), 1_400_000_000)),
                _ => { let mut b2 = body.clone(); b2.truncate(sz / 2); b2.extend(b"old"); dst.push((name, b2, 1_400_000_000)); }
            }
        }
        // identical on both sides (same size and mtime): matched by the quick check, never part of the plan
        src.push(("outside-plan".to_string(), b"untouched".to_vec(), 1_300_000_000));
        dst.push(("outside-plan".to_string(), b"untouched".to_vec(), 1_300_000_000));
        let del = r.chance(1, 3);
        if del {
            dst.push(("stale".to_string(), b"to be deleted".to_vec(), 1_300_000_000));
        }
        scenarios.push(Scenario { src, dst, dir, del, oracle_only: false });
    }
    // directed: push --delete whose delete list is larger than a pipe (64 KiB): the list goes to the remote `xargs -0 rm`
    // in several write calls, and a kill between two of them ends the remote input in the middle of a path.  The trees
    // are laid out so that the cut after the first 65536 bytes falls right behind `<root>/keep/notes.txt`, a prefix of
    // the stale `keep/notes.txt.orig` that names a file OUTSIDE the plan (present and identical on both sides).
    {
        let keep = "keep/notes.txt";
        let head = dstd.len() + 1 + keep.len();                    // bytes of "<root>/keep/notes.txt"
        let entry = 128usize;                                       // bytes of one filler entry, NUL included
        let fixed = dstd.len() + 1 + 2 + 4;                         // "<root>/" "a/" "NNNN"
        let room = 65536usize - head;
        let m = room / entry;
        let extra = room - m * entry;                               // added to the first filler's name
        let mut src = vec![("f".to_string(), b"new".to_vec(), 1_500_000_000i64), ("outside-plan".to_string(), b"untouched".to_vec(), 1_300_000_000),
                           (keep.to_string(), b"notes outside the plan".to_vec(), 1_300_000_000)];
        let mut dst = vec![("outside-plan".to_string(), b"untouched".to_vec(), 1_300_000_000i64), (keep.to_string(), b"notes outside the plan".to_vec(), 1_300_000_000),
                           (format!("{}.orig", keep), b"stale copy".to_vec(), 1_300_000_000)];
        if entry > fixed + 1 && extra + entry - fixed - 1 <= 250 {
            for i in 0..m {
                let pad = entry - fixed - 1 + if i == 0 { extra } else { 0 };
                dst.push((format!("a/{:04}{}", i, "x".repeat(pad)), b"s".to_vec(), 1_300_000_000));
            }
            for i in 0..150 {
                dst.push((format!("z/{:04}{}", i, "y".repeat(100)), b"s".to_vec(), 1_300_000_000));
            }
            src.sort();
            scenarios.insert(2, Scenario { src, dst, dir: 1, del: true, oracle_only: true });
        }
    }
    let mut id = 0usize;
    let mut nfail = 0u64;
    let mut distinct = std::collections::HashSet::new();
    for (si, sc) in scenarios.iter().enumerate() {
        let (sarg, darg) = match sc.dir {
            0 => (srcd.clone(), dstd.clone()),
            1 => (srcd.clone(), format!("hosty:{}", dstd)),
            _ => (format!("hosty:{}", srcd), dstd.clone()),
        };
        let mut args: Vec<String> = vec!["--jobs".into(), "1".into()];
        if sc.del {
            args.push("--delete".into());
        }
        args.push(sarg.clone());
        args.push(darg.clone());
        // uninterrupted reference run (also tells N = number of mutating calls)
        write_tree(&srcd, &sc.src);
        write_tree(&dstd, &sc.dst);
        let _ = std::fs::remove_file(&logf);
        let envs = |k: Option<usize>| -> Vec<(&'static str, String)> {
            let mut v = vec![("LD_PRELOAD", shim.clone()), ("VPSCHED_LOG", logf.clone()), ("VPSCHED_WATCH", absout.clone()), ("VPSCHED_PIPES", "1".to_string())];
            if let Some(k) = k {
                v.push(("VPSCHED_KILL_AT", k.to_string()));
            }
            v
        };
        let o = run_sync(&cx, &args, &envs(None));
        let reference = read_tree(&dstd);
        let log = std::fs::read_to_string(&logf).unwrap_or_default();
        let nmut = log.lines().filter(|l| l.split(' ').nth(2) == Some("M")).count();
        if o.code != Some(0) {
            nfail += 1;
            out.line("specfail.txt", &format!("s{} C09 reference run failed: {:?}", si, o.code));
            continue;
        }
        // the plan's transfer list in plan order = source files that differ (all of them here)
        let identical = |p: &String| sc.src.iter().any(|(q, c, m)| q == p && sc.dst.iter().any(|(q2, c2, m2)| q2 == q && c2 == c && m2 == m));
        let mut transfer: Vec<String> = sc.src.iter().map(|(p, _, _)| p.clone()).filter(|p| !identical(p)).collect();
        transfer.sort_by(|x, y| std::path::PathBuf::from(x).cmp(&std::path::PathBuf::from(y)));
        let srcmap: BTreeMap<String, (Vec<u8>, i64)> = sc.src.iter().map(|(p, c, m)| (p.clone(), (c.clone(), *m))).collect();
        let dst0: Tree = sc.dst.iter().map(|(p, c, _)| (p.clone(), c.clone())).collect();
        out.count("scenarios");
        out.count(&format!("dir_{}", ["local", "push", "pull"][sc.dir as usize]));
        out.add("mutating_calls_total", nmut as u64);
        let ks: Vec<usize> = if a.tier == "thorough" || nmut <= 24 { (1..=nmut).collect() } else {
            let mut v: Vec<usize> = (1..=nmut).filter(|k| *k <= 12 || *k + 6 > nmut || k % 3 == 0).collect();
            v.dedup();
            v
        };
        let mut tried_replace = false;
        let mut tried_replace_nonempty = false;
        for k in ks {
            write_tree(&srcd, &sc.src);
            write_tree(&dstd, &sc.dst);
            let _ = std::fs::remove_file(&logf);
            let ko = run_sync(&cx, &args, &envs(Some(k)));
            // let remote shells finish (push): wait until no `cat`/bash child of the stand-in is alive -> simple settle loop
            let mut last = read_tree(&dstd);
            for _ in 0..40 {
                std::thread::sleep(std::time::Duration::from_millis(25));
                let now = read_tree(&dstd);
                if now == last { break; }
                last = now;
            }
            let crashed = read_tree(&dstd);
            let klog = std::fs::read_to_string(&logf).unwrap_or_default();
            // observation in the model's format
            let paths: Vec<String> = sc.dst.iter().map(|(p, _, _)| p.clone()).chain(transfer.iter().cloned()).collect();
            let t_obs = paths.iter().map(|p| format!("{}={}", hex(p.as_bytes()), crashed.get(p).map(|c| hex(c)).unwrap_or("~".into()))).collect::<Vec<_>>().join(";");
            let st_obs = transfer.iter().map(|p| crashed.get(&format!("{}.copia-tmp", p)).map(|c| hex(c)).unwrap_or("~".into())).collect::<Vec<_>>().join(",");
            // schedule: StageOpen / one step per observed chunk / Rename / SetMtime, in log order
            let mut msched: Vec<usize> = vec![];
            let mut chunk_sizes: Vec<Vec<usize>> = transfer.iter().map(|_| vec![]).collect();
            {
                // walk the log in order; a data call's RESULT line ("X ret") gives the bytes really written
                let mut mcount = 0usize;
                let idx_of_dst = |p: &str| -> Option<usize> { transfer.iter().position(|t| format!("{}/{}", dstd, t) == p) };
                let mut cur: Option<usize> = None;
                let mut pending: Option<usize> = None; // delivery of the data call whose result we are waiting for
                for line in klog.lines() {
                    let f: Vec<&str> = line.splitn(7, ' ').collect();
                    if f.len() < 6 { continue; }
                    let (kind, call, a1, b1, extra) = (f[2], f[3], unesc(f[4]), unesc(f[5]), f.get(6).copied().unwrap_or("-"));
                    if kind == "X" {
                        if let Some(i) = pending.take() {
                            let n: i64 = extra.trim().parse().unwrap_or(0);
                            if n > 0 { chunk_sizes[i].push(n as usize); msched.push(i); }
                        }
                        continue;
                    }
                    pending = None;
                    if kind == "M" { mcount += 1; if mcount > k - 1 { break; } }
                    match call {
                        "openr" => { if let Some(i) = transfer.iter().position(|t| format!("{}/{}", srcd, t) == a1) { cur = Some(i); if sc.dir == 1 { msched.push(i); } } }
                        "openw" if a1.ends_with(".copia-tmp") => { if let Some(i) = idx_of_dst(a1.trim_end_matches(".copia-tmp")) { msched.push(i); cur = Some(i); } }
                        "write" | "copy_file_range" | "sendfile" | "splice" => {
                            pending = if a1.ends_with(".copia-tmp") { idx_of_dst(a1.trim_end_matches(".copia-tmp")) } else if a1 == "pipe" && sc.dir == 1 { cur } else { None };
                        }
                        "rename" if a1.ends_with(".copia-tmp") => { if let Some(i) = idx_of_dst(&b1) { msched.push(i); } }
                        "futimens" => { if let Some(i) = idx_of_dst(&a1) { msched.push(i); } }
                        _ => {}
                    }
                }
            }
            // deliveries with the chunking observed in this run
            let ds = transfer.iter().enumerate().map(|(i, p)| {
                let (body, m) = &srcmap[p];
                let mut pos = 0usize;
                let mut cs = vec![];
                for n in &chunk_sizes[i] {
                    let take = (*n).min(body.len() - pos);
                    if take > 0 { cs.push(hex(&body[pos..pos + take])); pos += take; }
                }
                if pos < body.len() { cs.push(hex(&body[pos..])); }
                format!("{}:{}:{}", hex(p.as_bytes()), if cs.is_empty() { ".".to_string() } else { cs.join("+") }, m)
            }).collect::<Vec<_>>().join(";");
            let dst_case = if dst0.is_empty() { "-".to_string() } else { sc.dst.iter().map(|(p, c, _)| format!("{}:{}", hex(p.as_bytes()), hex(c))).collect::<Vec<_>>().join(";") };
            if sc.oracle_only {
                out.line("cases-oracle.txt", &format!("{} push --delete with a delete list of {} entries (> 64 KiB), kill before mutating call {}; the cut of the list after 65536 bytes falls behind the name of a file outside the plan", id, sc.dst.len() - 2, k));
            } else {
            out.line("cases.txt", &format!("{} DST={} DS={} SCHED={} PUSH={}", id, dst_case, ds, if msched.is_empty() { "-".to_string() } else { msched.iter().map(|x| x.to_string()).collect::<Vec<_>>().join(",") }, (sc.dir == 1) as u8));
            }
            // for the comparison ignore deletions done after the deliveries (the step model covers deliveries): mask paths the plan deletes
            let t_obs = if sc.del { t_obs.replace(&format!("{}=~", hex(b"stale")), &format!("{}={}", hex(b"stale"), hex(b"to be deleted"))) } else { t_obs };
            if !sc.oracle_only {
                out.line("impl.txt", &format!("{} T={} ST={}", id, t_obs, st_obs));
            } else {
                out.count("kill_points_big_delete_list");
            }
            out.count("kill_points");
            distinct.insert(format!("{}|{}", t_obs, st_obs));
            // ---- oracles on the implementation
            for (p, c) in &crashed {
                if p.ends_with(".copia-tmp") { continue; }
                let old_ok = dst0.get(p) == Some(c);
                let new_ok = srcmap.get(p).map(|(b, _)| b == c).unwrap_or(false);
                if !old_ok && !new_ok {
                    nfail += 1;
                    out.line("specfail.txt", &format!("{} C09 killed before call {} ({}): destination path {:?} holds {} bytes that are neither its previous content nor the complete source file", id, k, ["local", "push", "pull"][sc.dir as usize], p, c.len()));
                }
            }
            for (p, c, _) in sc.dst.iter().filter(|(p, _, _)| identical(p)) {
                if crashed.get(p) != Some(c) {
                    nfail += 1;
                    out.line("specfail.txt", &format!("{} C09 a file outside the plan ({:?}, identical on both sides) changed or vanished after a kill before call {} ({})", id, p, k, ["local", "push", "pull"][sc.dir as usize]));
                }
            }
            for p in dst0.keys() {
                if identical(p) { continue; }
                if !crashed.contains_key(p) && !(sc.del && !srcmap.contains_key(p)) {
                    nfail += 1;
                    out.line("specfail.txt", &format!("{} C09 destination path {:?} vanished after a kill before call {}", id, p, k));
                }
            }
            // ---- rerun: completes and equals the uninterrupted result (staging leftovers aside)
            let ro = run_sync(&cx, &args, &[]);
            let after: Tree = read_tree(&dstd).into_iter().filter(|(p, _)| !p.ends_with(".copia-tmp")).collect();
            let refc: Tree = reference.clone().into_iter().filter(|(p, _)| !p.ends_with(".copia-tmp")).collect();
            if ro.code != Some(0) || after != refc {
                nfail += 1;
                out.line("specfail.txt", &format!("{} C09 re-running after a kill before call {} did not reproduce the uninterrupted result (exit {:?})", id, k, ro.code));
            }
            // ---- the same kill point with the chosen call HELD for 120 ms first (a slow disk, a descheduled thread): the other
            // threads of the process go on meanwhile - a rename whose data write has not happened yet would publish a short
            // file.  Oracle-only (the state is some later crash state of the model): whole versions only, outside-plan untouched
            {
                write_tree(&srcd, &sc.src);
                write_tree(&dstd, &sc.dst);
                let _ = std::fs::remove_file(&logf);
                let mut ev = envs(Some(k));
                ev.push(("VPSCHED_HOLD_MS", "120".to_string()));
                let _ = run_sync(&cx, &args, &ev);
                let mut last = read_tree(&dstd);
                for _ in 0..40 {
                    std::thread::sleep(std::time::Duration::from_millis(25));
                    let now = read_tree(&dstd);
                    if now == last { break; }
                    last = now;
                }
                for (p, c) in &last {
                    if p.ends_with(".copia-tmp") { continue; }
                    let old_ok = dst0.get(p) == Some(c);
                    let new_ok = srcmap.get(p).map(|(b, _)| b == c).unwrap_or(false);
                    if !old_ok && !new_ok {
                        nfail += 1;
                        out.line("specfail.txt", &format!("{} C09 call {} held for 120 ms, then killed ({}): destination path {:?} holds {} bytes that are neither its previous content nor the complete source file", id, k, ["local", "push", "pull"][sc.dir as usize], p, c.len()));
                    }
                }
                for (p, c, _) in sc.dst.iter().filter(|(p, _, _)| identical(p)) {
                    if last.get(p) != Some(c) {
                        nfail += 1;
                        out.line("specfail.txt", &format!("{} C09 call {} held for 120 ms, then killed: a file outside the plan ({:?}) changed or vanished", id, k, p));
                    }
                }
                out.count("kill_points_with_hold");
            }
            let _ = ko;
            // ---- once per scenario: the crash left a staging file; the SOURCE is then replaced by other bytes of the same
            // length that carry the OLD timestamp (restore from a backup, cp -p), and the same command runs again: what
            // arrives must be the source as it is now - a leftover staging file is never a head start
            let left_bytes: usize = crashed.iter().filter(|(p, _)| p.ends_with(".copia-tmp")).map(|(_, c)| c.len()).sum();
            let has_left = crashed.keys().any(|p| p.ends_with(".copia-tmp"));
            // (twice per scenario: the first kill point that leaves an EMPTY staging file, and the first that leaves bytes in it)
            if !sc.oracle_only && has_left && ((left_bytes == 0 && !tried_replace) || (left_bytes > 0 && !tried_replace_nonempty)) {
                if left_bytes == 0 { tried_replace = true; } else { tried_replace_nonempty = true; }
                write_tree(&srcd, &sc.src);
                write_tree(&dstd, &sc.dst);
                let _ = std::fs::remove_file(&logf);
                let _ = run_sync(&cx, &args, &envs(Some(k)));
                std::thread::sleep(std::time::Duration::from_millis(60));
                let left: Vec<String> = read_tree(&dstd).keys().filter(|p| p.ends_with(".copia-tmp")).cloned().collect();
                if !left.is_empty() {
                    let replaced: Vec<(String, Vec<u8>, i64)> = sc.src.iter().map(|(p, c, m)| (p.clone(), c.iter().map(|x| x ^ 0x77).collect(), *m)).collect();
                    write_tree(&srcd, &replaced);
                    let ro = run_sync(&cx, &args, &[]);
                    let after = read_tree(&dstd);
                    for (p, c, _) in &replaced {
                        if identical(p) { continue; }
                        if after.get(p) != Some(c) {
                            nfail += 1;
                            out.line("specfail.txt", &format!("{} C09 a run after a kill before call {} ({}) with the source replaced meanwhile (same length, old timestamp) did not deliver the source as it is now: {:?} holds {} bytes that are not the current source (exit {:?}; leftover staging files: {:?})", id, k, ["local", "push", "pull"][sc.dir as usize], p, after.get(p).map(|x| x.len()).unwrap_or(0), ro.code, left));
                        }
                    }
                    out.count("rerun_after_source_replaced");
                }
            }
            id += 1;
        }
        if si % 3 == 0 {
            out.sample(format!("scenario {}: dir={} files={:?} delete={} mutating calls={}", si, ["local", "push", "pull"][sc.dir as usize], sc.src.iter().map(|(p, c, _)| (p.clone(), c.len())).collect::<Vec<_>>(), sc.del, nmut));
        }
    }
    for d in ["S", "D", "bin"] {
        let _ = std::fs::remove_dir_all(format!("{}/{}", absout, d));
    }
    let _ = std::fs::remove_file(&logf);
    out.add("distinct_nontrivial", distinct.len() as u64);
    out.add("spec_failures", nfail);
    out.finish();
    0
}
