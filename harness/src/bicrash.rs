//! C08: `copia bisync` killed before its k-th file-system-mutating libc call, for EVERY k of each scenario
//! (create, propagate either way, delete either way, both-changed conflict, delete-vs-modify, first run
//! without archive, several paths at once). Per scenario: the ordered list of mutating calls of an
//! uninterrupted run is compared with the model's step list; per k the crashed trees / staging files /
//! archive are compared with the model's crash state; then bisync is re-run (up to three times) and the
//! result compared with the uninterrupted one.
//!
//! cases.txt: `<id> T=.. HOST=.. A=<tree> B=<tree> Z=<none|tree of digests|-> AE=<0|1> K=<all|k>`
//! impl.txt:  `<id> STEPS=<step>,..`   or   `<id> A=<tree>;B=<tree>;GA=<staging keys>;GB=<..>;Z=<arch>`
use crate::bisync::Env;
use crate::hubctl::snapshot;
use crate::util::*;
use std::collections::BTreeMap;

type Tree = BTreeMap<String, Vec<u8>>;

fn h32(c: &[u8]) -> [u8; 32] {
    *blake3::hash(c).as_bytes()
}
fn read_tree(root: &str) -> Tree {
    snapshot(root).into_iter().collect()
}
fn live(t: &Tree) -> Tree {
    t.iter().filter(|(p, _)| !p.ends_with(".copia-tmp")).map(|(p, c)| (p.clone(), c.clone())).collect()
}
fn staging_keys(t: &Tree) -> String {
    let v: Vec<String> = t.keys().filter(|p| p.ends_with(".copia-tmp")).map(|p| hex(p.trim_end_matches(".copia-tmp").as_bytes())).collect();
    if v.is_empty() { "-".into() } else { v.join(",") }
}
fn tree_str(t: &Tree) -> String {
    if t.is_empty() { "-".into() } else { t.iter().map(|(p, c)| format!("{}={}", hex(p.as_bytes()), hex(c))).collect::<Vec<_>>().join(",") }
}
fn case_tree(t: &Tree) -> String {
    if t.is_empty() { "-".into() } else { t.iter().map(|(p, c)| format!("{}:{}", hex(p.as_bytes()), hex(c))).collect::<Vec<_>>().join(";") }
}
fn write_tree(root: &str, t: &Tree) {
    let _ = std::fs::remove_dir_all(root);
    std::fs::create_dir_all(root).unwrap();
    for (p, c) in t {
        let full = format!("{}/{}", root, p);
        std::fs::create_dir_all(std::path::Path::new(&full).parent().unwrap()).unwrap();
        std::fs::write(full, c).unwrap();
    }
}
fn unesc(p: &str) -> String {
    let b = p.as_bytes();
    let mut out = vec![];
    let mut i = 0;
    while i < b.len() {
        if b[i] == b'%' && i + 3 <= b.len() {
            if let Ok(v) = u8::from_str_radix(&p[i + 1..i + 3], 16) {
                out.push(v);
                i += 3;
                continue;
            }
        }
        out.push(b[i]);
        i += 1;
    }
    String::from_utf8_lossy(&out).into_owned()
}

struct Scen {
    /// checked by the oracles only: a name too long for its staging name makes the run stop with ENAMETOOLONG, which the
    /// step model does not have
    oracle_only: bool,
    name: &'static str,
    /// trees after which a completed bisync establishes the archive (None = no previous run: first run)
    base: Option<(Tree, Tree)>,
    /// trees at the moment of the crashed run
    a: Tree,
    b: Tree,
}

fn t(v: &[(&str, &[u8])]) -> Tree {
    v.iter().map(|(p, c)| (p.to_string(), c.to_vec())).collect()
}

/// canonical steps of the executed part of a shim log (mutating calls 1..upto)
fn canon_steps(log: &str, env: &Env, upto: usize) -> Vec<String> {
    let mut out = vec![];
    let mut mcount = 0usize;
    let mut staged_data: std::collections::HashSet<String> = Default::default();
    for line in log.lines() {
        let f: Vec<&str> = line.splitn(7, ' ').collect();
        if f.len() < 6 || f[2] != "M" {
            continue;
        }
        mcount += 1;
        if mcount > upto {
            break;
        }
        let (call, a, b) = (f[3], unesc(f[4]), unesc(f[5]));
        let side_of = |p: &str| -> Option<(&'static str, String)> {
            if let Some(r) = p.strip_prefix(&format!("{}/", env.a)) { Some(("A", r.to_string())) }
            else if let Some(r) = p.strip_prefix(&format!("{}/", env.b)) { Some(("B", r.to_string())) } else { None }
        };
        let is_arch = a.contains("/.copia/archive/") || a.ends_with("/.copia/archive");
        match call {
            "mkdir" => {}
            "openw" if is_arch => out.push("ArchStage".to_string()),
            "write" if is_arch => out.push("ArchWrite".to_string()),
            "fsync" if is_arch => out.push("ArchSync".to_string()),
            "fsyncdir" if is_arch => out.push("ArchDirSync".to_string()),
            "rename" if is_arch => out.push(if b.ends_with(".bak") { "ArchBak".to_string() } else { "ArchRename".to_string() }),
            "openw" => {
                if let Some((s, r)) = side_of(&a) {
                    staged_data.remove(&format!("{}:{}", s, r));
                    out.push(format!("Stage:{}:{}", s, hex(r.trim_end_matches(".copia-tmp").as_bytes())));
                }
            }
            "copy_file_range" | "write" | "sendfile" => {
                if let Some((s, r)) = side_of(&a) {
                    if staged_data.insert(format!("{}:{}", s, r)) {
                        out.push(format!("Data:{}:{}", s, hex(r.trim_end_matches(".copia-tmp").as_bytes())));
                    }
                }
            }
            "fsync" => {
                if let Some((s, r)) = side_of(&a) {
                    // an EMPTY file is delivered without any data call (open, fsync, rename): the model's Data step of that
                    // copy writes nothing; it is inserted here so that both step lists have the same shape
                    if r.ends_with(".copia-tmp") && staged_data.insert(format!("{}:{}", s, r)) {
                        out.push(format!("Data:{}:{}", s, hex(r.trim_end_matches(".copia-tmp").as_bytes())));
                    }
                    out.push(format!("Sync:{}:{}", s, hex(r.trim_end_matches(".copia-tmp").as_bytes())));
                }
            }
            "rename" => { if let Some((s, r)) = side_of(&b) { out.push(format!("Rename:{}:{}", s, hex(r.as_bytes()))); } }
            "unlink" => { if let Some((s, r)) = side_of(&a) { out.push(format!("Unlink:{}:{}", s, hex(r.as_bytes()))); } }
            _ => {}
        }
    }
    out
}

pub fn main(a: Args) -> i32 {
    let mut out = Out::new(&a.out);
    let copia = a.rest.iter().position(|x| x == "--copia").map(|i| a.rest[i + 1].clone()).expect("--copia");
    let shim = a.rest.iter().position(|x| x == "--shim").map(|i| a.rest[i + 1].clone()).expect("--shim");
    let absout = std::fs::canonicalize(&a.out).unwrap().to_string_lossy().into_owned();
    let env = Env::new(&copia, &format!("{}/bi", absout));
    let logf = format!("{}/shim.log", absout);
    let big: Vec<u8> = (0..300_000usize).map(|i| (i % 253) as u8).collect();
    let v1: &[u8] = b"version one";
    let v2: &[u8] = b"version two!";
    let v3: &[u8] = b"third";
    let both = |x: Tree| (x.clone(), x);
    let mut scens = vec![
        Scen { oracle_only: false, name: "first-run-create", base: None, a: t(&[("f", v1), ("d/g", &big)]), b: t(&[]) },
        Scen { oracle_only: false, name: "first-run-differing", base: None, a: t(&[("f", v1)]), b: t(&[("f", v2), ("h", v3)]) },
        Scen { oracle_only: false, name: "propagate-A-to-B", base: Some(both(t(&[("f", v1), ("k", v3)]))), a: t(&[("f", v2), ("k", v3)]), b: t(&[("f", v1), ("k", v3)]) },
        Scen { oracle_only: false, name: "propagate-B-to-A", base: Some(both(t(&[("f", v1)]))), a: t(&[("f", v1)]), b: t(&[("f", &big)]) },
        Scen { oracle_only: false, name: "delete-on-A", base: Some(both(t(&[("f", v1), ("k", v3)]))), a: t(&[("k", v3)]), b: t(&[("f", v1), ("k", v3)]) },
        Scen { oracle_only: false, name: "delete-on-B", base: Some(both(t(&[("f", v1), ("d/g", v2)]))), a: t(&[("f", v1), ("d/g", v2)]), b: t(&[("f", v1)]) },
        Scen { oracle_only: false, name: "both-changed-conflict", base: Some(both(t(&[("f", v1)]))), a: t(&[("f", v2)]), b: t(&[("f", v3)]) },
        Scen { oracle_only: false, name: "delete-vs-modify", base: Some(both(t(&[("f", v1)]))), a: t(&[("f", v2)]), b: t(&[]) },
        Scen { oracle_only: true, name: "long-name-create", base: None, a: t(&[("f", v1), (&"n".repeat(250), v2)]), b: t(&[]) },
        Scen { oracle_only: true, name: "long-name-update", base: Some(both(t(&[("f", v1), (&"n".repeat(250), v1)]))), a: t(&[("f", v2), (&"n".repeat(250), &big)]), b: t(&[("f", v1), (&"n".repeat(250), v1)]) },
        Scen { oracle_only: false, name: "several-paths", base: Some(both(t(&[("a", v1), ("b", v1), ("c", v1), ("d/e", v1)]))), a: t(&[("a", v2), ("b", v1), ("d/e", v3), ("n", v3)]), b: t(&[("a", v1), ("b", v2), ("c", v1), ("d/e", v2)]) },
    ];
    {
        // a run with more actions than any batching constant a maintainer would pick (70 updates, a delete, a create): the
        // record must still be written once, after the last data rename; kill points are sampled (every 9th)
        let names: Vec<String> = (0..70).map(|i| format!("b{:02}", i)).collect();
        let mut base = Tree::new();
        let mut ta = Tree::new();
        for n in &names { base.insert(n.clone(), v1.to_vec()); ta.insert(n.clone(), v2.to_vec()); }
        base.insert("z-del".into(), v3.to_vec());
        let mut tb = base.clone();
        tb.remove("z-del");
        ta.insert("z-del".into(), v3.to_vec());
        ta.insert("z-new".into(), v3.to_vec());
        scens.push(Scen { oracle_only: true, name: "bulk-72-actions", base: Some((base.clone(), base)), a: ta, b: tb });
    }
    if a.tier == "thorough" {
        let mut r = Rng::new(a.seed ^ 0xC08);
        let pool: Vec<&[u8]> = vec![v1, v2, v3, b""];
        for _ in 0..20 {
            let mut base = Tree::new();
            let mut ta = Tree::new();
            let mut tb = Tree::new();
            for p in ["p", "q", "r/s"] {
                if r.chance(2, 3) { base.insert(p.to_string(), r.pick(&pool).to_vec()); }
                if r.chance(2, 3) { ta.insert(p.to_string(), r.pick(&pool).to_vec()); }
                if r.chance(2, 3) { tb.insert(p.to_string(), r.pick(&pool).to_vec()); }
            }
            scens.push(Scen { oracle_only: false, name: "random", base: if r.chance(3, 4) { Some((base.clone(), base)) } else { None }, a: ta, b: tb });
        }
    }
    let envs = |k: Option<usize>| -> Vec<(&'static str, String)> {
        let mut v = vec![("LD_PRELOAD", shim.clone()), ("VPSCHED_LOG", logf.clone()), ("VPSCHED_WATCH", env.dir.clone())];
        if let Some(k) = k { v.push(("VPSCHED_KILL_AT", k.to_string())); }
        v
    };
    let mut id = 0usize;
    let mut nfail = 0u64;
    let mut distinct = std::collections::HashSet::new();
    for sc in &scens {
        // set the stage (establish the archive with a completed run when the scenario has a base)
        let setup = |env: &Env| {
            let _ = std::fs::remove_dir_all(&env.home);
            std::fs::create_dir_all(&env.home).unwrap();
            if let Some((ba, bb)) = &sc.base {
                write_tree(&env.a, ba);
                write_tree(&env.b, bb);
                let _ = env.bisync(&[], &env.a, &env.b, &[]);
            }
            write_tree(&env.a, &sc.a);
            write_tree(&env.b, &sc.b);
        };
        setup(&env);
        let z0 = env.archive_entries();
        let ae = env.archive_main().is_some();
        // all contents in play -> digest table
        let mut contents: Vec<Vec<u8>> = sc.a.values().chain(sc.b.values()).cloned().collect();
        if let Some((ba, _)) = &sc.base { contents.extend(ba.values().cloned()); }
        contents.sort();
        contents.dedup();
        let tbl = contents.iter().map(|c| format!("{}:{}", hex(c), hex(&h32(c)))).collect::<Vec<_>>().join(";");
        let zcase = match &z0 { None => "none".to_string(), Some(m) if m.is_empty() => "-".to_string(), Some(m) => m.iter().map(|(p, d)| format!("{}:{}", hex(p.as_bytes()), d)).collect::<Vec<_>>().join(";") };
        let case = |k: &str| format!("T={} HOST={} A={} B={} Z={} AE={} K={}", tbl, hex(b"vphost"), case_tree(&sc.a), case_tree(&sc.b), zcase, ae as u8, k);
        // uninterrupted reference run under the logging shim
        let _ = std::fs::remove_file(&logf);
        let ev = envs(None);
        let evr: Vec<(&str, &str)> = ev.iter().map(|(k, v)| (*k, v.as_str())).collect();
        let (code, _so, _se) = env.bisync(&[], &env.a, &env.b, &evr);
        let ref_a = live(&read_tree(&env.a));
        let ref_b = live(&read_tree(&env.b));
        let log = std::fs::read_to_string(&logf).unwrap_or_default();
        let nmut = log.lines().filter(|l| l.split(' ').nth(2) == Some("M")).count();
        let steps = canon_steps(&log, &env, nmut);
        if sc.oracle_only {
            out.line("cases-oracle.txt", &format!("{} {} ({})", id, case("all"), sc.name));
        } else {
            out.line("cases.txt", &format!("{} {}", id, case("all")));
            out.line("impl.txt", &format!("{} STEPS={}", id, if steps.is_empty() { "-".to_string() } else { steps.join(",") }));
        }
        let ref_completed = code == Some(0) || _so.contains("Bidirectional sync complete");
        id += 1;
        out.count("scenarios");
        out.count(&format!("scenario_{}", sc.name));
        out.add("mutating_calls_total", nmut as u64);
        if code.is_none() {
            nfail += 1;
            out.line("specfail.txt", &format!("{} C08 reference run of {} crashed", id, sc.name));
        }
        // ---- ordering oracle on the reference log: every data rename is preceded by the fsync of its staging file;
        //      the archive rename comes after every data rename
        let mut last_sync: Option<String> = None;
        let mut seen_arch_rename = false;
        for s in &steps {
            if let Some(r) = s.strip_prefix("Sync:") { last_sync = Some(r.to_string()); continue; }
            if let Some(r) = s.strip_prefix("Rename:") {
                if last_sync.as_deref() != Some(r) {
                    nfail += 1;
                    out.line("specfail.txt", &format!("{} C08 {}: file {} was renamed into place without a preceding fsync of its staging file (steps {})", id - 1, sc.name, r, steps.join(",")));
                }
                if seen_arch_rename {
                    nfail += 1;
                    out.line("specfail.txt", &format!("{} C08 {}: a data rename follows the archive rename", id - 1, sc.name));
                }
            }
            if s == "ArchRename" { seen_arch_rename = true; }
            if !s.starts_with("Sync:") { last_sync = None; }
        }
        // versions that existed before the run
        let versions: Vec<&Vec<u8>> = sc.a.values().chain(sc.b.values()).collect();
        // ---- every kill point
        for k in 1..=nmut {
            if sc.name == "bulk-72-actions" && k % 9 != 4 && k + 12 < nmut { continue; }
            setup(&env);
            let _ = std::fs::remove_file(&logf);
            let ev = envs(Some(k));
            let evr: Vec<(&str, &str)> = ev.iter().map(|(k, v)| (*k, v.as_str())).collect();
            let _ = env.bisync(&[], &env.a, &env.b, &evr);
            let ca = read_tree(&env.a);
            let cb = read_tree(&env.b);
            let cz = env.archive_entries();
            let klog = std::fs::read_to_string(&logf).unwrap_or_default();
            let done = canon_steps(&klog, &env, k - 1).len();
            if sc.oracle_only {
                out.line("cases-oracle.txt", &format!("{} {} ({}, killed before call {})", id, case(&done.to_string()), sc.name, k));
            } else {
            out.line("cases.txt", &format!("{} {}", id, case(&done.to_string())));
            }
            let zs = match &cz { None => "none".to_string(), Some(m) if m.is_empty() => "-".to_string(), Some(m) => m.iter().map(|(p, d)| format!("{}={}", hex(p.as_bytes()), &d[..12])).collect::<Vec<_>>().join(",") };
            let line = format!("A={};B={};GA={};GB={};Z={}", tree_str(&live(&ca)), tree_str(&live(&cb)), staging_keys(&ca), staging_keys(&cb), zs);
            if !sc.oracle_only {
                out.line("impl.txt", &format!("{} {}", id, line));
            }
            out.count("kill_points");
            distinct.insert(format!("{}|{}", sc.name, line));
            // oracle: whole versions only
            for (side, tr) in [("A", &ca), ("B", &cb)] {
                for (p, c) in tr {
                    if p.ends_with(".copia-tmp") { continue; }
                    if !versions.contains(&c) {
                        nfail += 1;
                        out.line("specfail.txt", &format!("{} C08 {} killed before call {}: {}/{} holds {} bytes that are no complete pre-existing version", id, sc.name, k, side, p, c.len()));
                    }
                }
            }
            // oracle: the record on disk is the old one, absent, or the new one (= the uninterrupted run's record)
            let new_z: BTreeMap<String, String> = ref_a.iter().map(|(p, c)| (p.clone(), hex(&h32(c)))).collect();
            if !(cz == z0 || cz.is_none() || cz.as_ref() == Some(&new_z)) {
                nfail += 1;
                out.line("specfail.txt", &format!("{} C08 {} killed before call {}: the recorded common state is neither the old one, nor absent, nor the new one", id, sc.name, k));
            }
            if cz.as_ref() == Some(&new_z) && cz != z0 && (live(&ca) != ref_a || live(&cb) != ref_b) {
                nfail += 1;
                out.line("specfail.txt", &format!("{} C08 {} killed before call {}: the NEW record is on disk although the data it describes is not all in place", id, sc.name, k));
            }
            // ---- recovery: run again (repeat while a run stops on an I/O error), compare with the uninterrupted result
            let mut ok = false;
            for _ in 0..3 {
                let (c, so, _) = env.bisync(&[], &env.a, &env.b, &[]);
                if c == Some(0) || so.contains("Bidirectional sync complete") { ok = true; break; }
            }
            let ra = live(&read_tree(&env.a));
            let rb = live(&read_tree(&env.b));
            // leftovers named *.copia-tmp may have been propagated as ordinary files: compare the non-staging paths
            let strip = |t: &Tree| -> Tree { t.iter().filter(|(p, _)| !p.contains(".copia-tmp")).map(|(p, c)| (p.clone(), c.clone())).collect() };
            // (a reference run that itself stops on an error - a name too long to be staged - is not expected to complete
            // after a crash either: the trees must still be the reference run's)
            if (!ok && ref_completed) || strip(&ra) != strip(&ref_a) || strip(&rb) != strip(&ref_b) {
                nfail += 1;
                out.line("specfail.txt", &format!("{} C08 {} killed before call {}: re-running bisync did not reach the uninterrupted result (completed={}) A={} B={} expected {}", id, sc.name, k, ok, tree_str(&strip(&ra)), tree_str(&strip(&rb)), tree_str(&strip(&ref_a))));
            }
            id += 1;
        }
        out.sample(format!("{}: A={:?} B={:?} base={} -> {} mutating calls: {}", sc.name, sc.a.keys().collect::<Vec<_>>(), sc.b.keys().collect::<Vec<_>>(), sc.base.is_some(), nmut, steps.join(",")));
    }
    let _ = std::fs::remove_dir_all(&env.dir);
    let _ = std::fs::remove_file(&logf);
    out.add("distinct_nontrivial", distinct.len() as u64);
    out.add("spec_failures", nfail);
    out.finish();
    0
}
