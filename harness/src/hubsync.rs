//! C13: real `copia hub-sync LOCAL TARGET` runs (local path target and `host:root` through the ssh stand-in),
//! sequential histories by several clients plus runs whose listing is forced stale by gating the server.
//!
//! cases.txt: `<id> T=<content>:<hex12>;.. L=<tree at listing time> H=<tree when the Puts run> C=<local tree in path order>`
//! impl.txt:  `<id> EXIT0|EXITERR sent=<n> skipped=<n> conflicts=<n> F=<tree>`
use crate::hubctl::*;
use crate::util::*;
use std::collections::BTreeMap;
use std::process::Command;

fn h32(c: &[u8]) -> [u8; 32] {
    *blake3::hash(c).as_bytes()
}

fn tree_of(root: &str) -> Vec<(String, Vec<u8>)> {
    snapshot(root).into_iter().filter(|(p, _)| !p.starts_with(".copia/") && !p.ends_with(".copia-tmp")).collect()
}
fn tree_str(t: &[(String, Vec<u8>)]) -> String {
    if t.is_empty() { "-".into() } else { t.iter().map(|(p, c)| format!("{}={}", hex(p.as_bytes()), hex(c))).collect::<Vec<_>>().join(",") }
}
fn write_tree(root: &str, t: &[(String, Vec<u8>)]) {
    let _ = std::fs::remove_dir_all(root);
    std::fs::create_dir_all(root).unwrap();
    for (p, c) in t {
        let full = format!("{}/{}", root, p);
        std::fs::create_dir_all(std::path::Path::new(&full).parent().unwrap()).unwrap();
        std::fs::write(full, c).unwrap();
    }
}
/// one is a proper directory prefix of the other
fn dir_clash(p: &str, q: &str) -> bool {
    p.starts_with(&format!("{}/", q)) || q.starts_with(&format!("{}/", p))
}
/// add (p, c) to a tree, dropping the entry at p and everything that cannot coexist with a FILE at p
fn put_path(t: &mut Vec<(String, Vec<u8>)>, p: &str, c: Option<Vec<u8>>) {
    t.retain(|(q, _)| q != p && !(c.is_some() && dir_clash(q, p)));
    if let Some(c) = c {
        t.push((p.to_string(), c));
    }
}
fn sorted_local(t: &[(String, Vec<u8>)]) -> Vec<(String, Vec<u8>)> {
    let mut m: BTreeMap<std::path::PathBuf, Vec<u8>> = BTreeMap::new();
    for (p, c) in t {
        m.insert(std::path::PathBuf::from(p), c.clone());
    }
    m.into_iter().map(|(p, c)| (p.to_string_lossy().into_owned(), c)).collect()
}

struct SyncObs {
    exit: String,
    sent: i64,
    skipped: i64,
    conflicts: i64,
}

fn parse_counts(stdout: &str) -> (i64, i64, i64) {
    // "Hub push complete: {sent} sent, {skipped} unchanged, {conflicts} conflict(s)."
    for l in stdout.lines() {
        if let Some(rest) = l.strip_prefix("Hub push complete: ") {
            let nums: Vec<i64> = rest.split(|c: char| !c.is_ascii_digit()).filter(|s| !s.is_empty()).filter_map(|s| s.parse().ok()).collect();
            if nums.len() >= 3 {
                return (nums[0], nums[1], nums[2]);
            }
        }
    }
    (-1, -1, -1)
}

fn run_sync(copia: &str, local: &str, target: &str, standin: &str, bindir: &str) -> SyncObs {
    let path = format!("{}:{}:{}", standin, bindir, std::env::var("PATH").unwrap_or_default());
    let o = Command::new(copia).args(["hub-sync", local, target]).env("PATH", path).output().unwrap();
    let (s, k, c) = parse_counts(&String::from_utf8_lossy(&o.stdout));
    SyncObs { exit: if o.status.code() == Some(0) { "EXIT0".into() } else if o.status.code().is_some() { "EXITERR".into() } else { "SIGNAL".into() }, sent: s, skipped: k, conflicts: c }
}

fn table(trees: &[&[(String, Vec<u8>)]]) -> String {
    let mut t: BTreeMap<Vec<u8>, String> = BTreeMap::new();
    for tr in trees {
        for (_, c) in tr.iter() {
            t.insert(c.clone(), hex(&h32(c)[..6]));
        }
    }
    t.iter().map(|(c, h)| format!("{}:{}", hex(c), h)).collect::<Vec<_>>().join(";")
}

fn case_tree(t: &[(String, Vec<u8>)]) -> String {
    if t.is_empty() { "-".into() } else { t.iter().map(|(p, c)| format!("{}:{}", hex(p.as_bytes()), hex(c))).collect::<Vec<_>>().join(";") }
}

pub fn main(a: Args) -> i32 {
    let mut out = Out::new(&a.out);
    let copia = a.rest.iter().position(|x| x == "--copia").map(|i| a.rest[i + 1].clone()).expect("--copia");
    let shim = a.rest.iter().position(|x| x == "--shim").map(|i| a.rest[i + 1].clone()).expect("--shim");
    let standin = a.rest.iter().position(|x| x == "--standin").map(|i| a.rest[i + 1].clone()).expect("--standin");
    let absout = std::fs::canonicalize(&a.out).unwrap().to_string_lossy().into_owned();
    let bindir = format!("{}/bin", absout);
    std::fs::create_dir_all(&bindir).unwrap();
    let _ = std::os::unix::fs::symlink(&copia, format!("{}/copia", bindir));
    let mut r = Rng::new(a.seed ^ 0xC13);
    let nhist = if a.tier == "thorough" { 300 } else { 60 };
    let pool: Vec<Vec<u8>> = vec![b"".to_vec(), b"A".to_vec(), b"BB".to_vec(), b"hello world".to_vec(), vec![0x58; 3000], (0..=255u8).collect(), vec![0x5a; 300_000],
        { let mut v = vec![0x41u8; 8192]; v.extend(vec![0u8; 16384]); v }];
    // "d" as a FILE clashes with the directory of d/x, d/y, d/z'q: one tree never holds both, two clients (or a client and
    // the hub) may
    // `.copiarc` and `.copia-hooks/pre` START like the control directory `.copia` without being inside it: the hub lists
    // and serves them like any other file
    let base_paths: Vec<String> = ["a", "b", "d/x", "d/y", "e f", "d/z'q", "d", ".copiarc", ".copia-hooks/pre"].iter().map(|s| s.to_string()).collect();
    let hub = format!("{}/HUB", absout);
    let mut id = 0usize;
    let mut nfail = 0u64;
    let mut distinct = std::collections::HashSet::new();
    for h in 0..nhist {
        // every third history lives on paths drawn from the pool of hostile names (util::hostile_paths; no file/directory clash)
        let hp = if h % 3 == 2 { hostile_paths(&mut r, 6) } else { vec![] };
        let paths: Vec<&str> = if hp.len() == 6 { hp.iter().map(|x| x.as_str()).collect() } else { base_paths.iter().map(|x| x.as_str()).collect() };
        // initial hub tree
        let mut init = vec![];
        for p in &paths {
            if r.chance(1, 3) {
                let c = r.pick(&pool[..6]).clone();
                put_path(&mut init, p, Some(c));
            }
        }
        // history 0 is directed: client 1 pushes `a`; client 0 (local: file `d`, file `e f`) lists, then client 1 commits
        // `d/x` underneath it, then client 0's Puts arrive: its `d` cannot be committed (a directory is there now)
        let directed = h == 0;
        if directed { init.clear(); }
        write_tree(&hub, &init);
        let nclients = if directed { 2 } else { 1 + r.below(3) as usize };
        let mut locals: Vec<Vec<(String, Vec<u8>)>> = (0..nclients).map(|_| vec![]).collect();
        let runs = if directed { 2 } else { 3 + r.below(4) };
        for step in 0..runs {
            let c = if directed { 1 - step as usize } else { r.below(nclients as u64) as usize };
            // mutate this client's local tree
            for _ in 0..(1 + r.below(3)) {
                let p = r.pick(&paths).to_string();
                let cc = if r.chance(3, 4) { Some(r.pick(&pool).clone()) } else { None };
                put_path(&mut locals[c], &p, cc);
            }
            if directed {
                locals[c] = if step == 0 { vec![("a".to_string(), b"A".to_vec())] } else { vec![("d".to_string(), b"A".to_vec()), ("e f".to_string(), b"BB".to_vec())] };
            }
            let ldir = format!("{}/L{}", absout, c);
            write_tree(&ldir, &locals[c]);
            let local_sorted = sorted_local(&locals[c]);
            let before = tree_of(&hub);
            let stale = if directed { step == 1 } else { step > 0 && nclients > 1 && r.chance(1, 4) };
            let via_ssh = if directed { false } else { r.chance(1, 3) };
            // host aliases of several shapes (an alias is whatever ssh_config names: one letter, dotted, user@host)
            let hosts = ["hubhost", "h", "C", "hub.example", "me@hubhost", "10.0.0.7"];
            let target = if via_ssh { format!("{}:{}", hosts[(h + step as usize) % hosts.len()], hub) } else { hub.clone() };
            let (obs, listing, at_puts, class);
            if !stale {
                obs = run_sync(&copia, &ldir, &target, &standin, &bindir);
                listing = before.clone();
                at_puts = before.clone();
                class = if via_ssh { "sequential:ssh" } else { "sequential:local" };
            } else {
                // client A = c is gated (its server child inherits the environment): hold it at its first staging open,
                // let another client commit, then let A finish with its stale listing
                let other = (c + 1) % nclients;
                let odir = format!("{}/L{}", absout, other);
                let mut ol = locals[other].clone();
                let mut p = if let Some((p, _)) = local_sorted.first() { p.clone() } else { "a".to_string() };
                // one time in three the other client commits at a path that makes A's path a directory / a file under a file
                if directed || r.chance(1, 3) {
                    if p == "d" { p = "d/x".to_string(); } else if p.starts_with("d/") { p = "d".to_string(); }
                }
                let oc = r.pick(&pool[1..6]).clone();
                put_path(&mut ol, &p, Some(oc));
                // half the time the other client also commits at the NEXT paths this client is about to send, so that
                // every later Put of the gated client (not only the first) meets content its listing did not show
                if !directed && r.chance(1, 2) {
                    for (q, qc) in local_sorted.iter().skip(1).take(1 + r.below(2) as usize) {
                        let mut oc2 = r.pick(&pool[1..6]).clone();
                        if &oc2 == qc { oc2.push(b'#'); }
                        put_path(&mut ol, q, Some(oc2));
                    }
                }
                locals[other] = ol.clone();
                write_tree(&odir, &ol);
                let mut ctl = Ctl::new(&absout, &shim, &copia);
                let pathenv = format!("{}:{}:{}", standin, bindir, std::env::var("PATH").unwrap_or_default());
                ctl.spawn("A", &["hub-sync", &ldir, &hub], &hub, false, &[("PATH", &pathenv)]);
                let mut guard = 0;
                let mut held = false;
                while guard < 400 && !ctl.procs["A"].exited {
                    guard += 1;
                    let g = ctl.procs["A"].gate.clone();
                    match g {
                        Some(g) if g.call == "openw" && g.a.ends_with(".copia-tmp") => { held = true; break; }
                        Some(_) => { ctl.advance("A"); }
                        None => { if !ctl.wait("A") { break; } }
                    }
                }
                let mid_before = tree_of(&hub);
                if held {
                    let _ = run_sync(&copia, &odir, &hub, &standin, &bindir);
                }
                let mid = tree_of(&hub);
                let mut guard = 0;
                while guard < 2000 && !ctl.procs["A"].exited {
                    guard += 1;
                    if ctl.procs["A"].gate.is_some() { ctl.advance("A"); } else if !ctl.wait("A") { break; }
                }
                let so = String::from_utf8_lossy(&ctl.output("A")).into_owned();
                let (s, k, cf) = parse_counts(&so);
                let st = ctl.procs["A"].status;
                ctl.shutdown();
                obs = SyncObs { exit: if st == Some(0) { "EXIT0".into() } else { "EXITERR".into() }, sent: s, skipped: k, conflicts: cf };
                listing = mid_before;
                at_puts = mid;
                class = if held { "stale-listing" } else { "gated-nothing-to-send" };
            }
            let after = tree_of(&hub);
            // a local FILE where the hub has a directory (or the reverse) is outside the flat-name model: oracles only
            let clash = local_sorted.iter().any(|(p, _)| listing.iter().chain(at_puts.iter()).any(|(q, _)| dir_clash(p, q)));
            let case_line = format!("{} T={} L={} H={} C={}", id, table(&[&listing, &at_puts, &local_sorted, &after]), case_tree(&listing), case_tree(&at_puts), case_tree(&local_sorted));
            if clash {
                out.line("cases-oracle.txt", &case_line);
                out.count("dir_clash_runs_oracle_only");
            } else {
                out.line("cases.txt", &case_line);
                out.line("impl.txt", &format!("{} {} sent={} skipped={} conflicts={} F={}", id, obs.exit, obs.sent, obs.skipped, obs.conflicts, tree_str(&after)));
            }
            out.count("runs");
            out.count(&format!("class_{}", class));
            out.count(&format!("exit_{}", obs.exit));
            if obs.sent > 0 && obs.skipped > 0 {
                distinct.insert(format!("{}|{}", case_tree(&at_puts), case_tree(&local_sorted)));
            }
            // ---- property oracles on the implementation
            let after_map: BTreeMap<String, Vec<u8>> = after.iter().cloned().collect();
            let list_map0: BTreeMap<String, Vec<u8>> = listing.iter().cloned().collect();
            let puts_map0: BTreeMap<String, Vec<u8>> = at_puts.iter().cloned().collect();
            // a local file that was already on the hub when this client listed it and that ANOTHER client replaced
            // afterwards (a later acknowledged commit) is legitimately superseded
            let superseded = |p: &String, c: &Vec<u8>| list_map0.get(p) == Some(c) && puts_map0.get(p) != list_map0.get(p);
            if obs.exit == "EXIT0" {
                for (p, c) in &local_sorted {
                    if after_map.get(p) != Some(c) && !superseded(p, c) {
                        nfail += 1;
                        out.line("specfail.txt", &format!("{} C13 exit 0 but local file {:?} is not on the hub with identical bytes", id, p));
                    }
                }
                let at_map: BTreeMap<String, Vec<u8>> = at_puts.iter().cloned().collect();
                for (p, c) in &at_map {
                    if !local_sorted.iter().any(|(q, _)| q == p) && after_map.get(p) != Some(c) {
                        nfail += 1;
                        out.line("specfail.txt", &format!("{} C13 exit 0 but hub file {:?} outside the local tree was touched", id, p));
                    }
                }
                if !stale {
                    let again = run_sync(&copia, &ldir, &target, &standin, &bindir);
                    if again.sent != 0 || again.conflicts != 0 || again.exit != "EXIT0" || tree_of(&hub) != after {
                        nfail += 1;
                        out.line("specfail.txt", &format!("{} C13 an immediate second run was not a no-op: sent={} conflicts={} exit={}", id, again.sent, again.conflicts, again.exit));
                    }
                    out.count("second_runs");
                }
            } else if listing != at_puts {
                // "exits non-zero because the hub changed underneath it": the hub differs between this client's listing and its Puts
                for (p, c) in &local_sorted {
                    let cn = format!("{}.conflict-{}", p, hex(&h32(c)[..6]));
                    if after_map.get(p) != Some(c) && after_map.get(&cn) != Some(c) && !superseded(p, c) {
                        nfail += 1;
                        out.line("specfail.txt", &format!("{} C13 non-zero exit and local file {:?} is neither at its path nor at its conflict-copy on the hub{}", id, p, if clash { " (file/directory clash between the local tree and the hub)" } else { "" }));
                    }
                }
            }
            if stale {
                // nothing the other client committed has been overwritten by A's stale Puts
                let mid_map: BTreeMap<String, Vec<u8>> = at_puts.iter().cloned().collect();
                let list_map: BTreeMap<String, Vec<u8>> = listing.iter().cloned().collect();
                for (p, c) in &mid_map {
                    if list_map.get(p) != Some(c) && after_map.get(p) != Some(c) {
                        let mine = local_sorted.iter().any(|(q, d)| q == p && d == c);
                        if !mine {
                            nfail += 1;
                            out.line("specfail.txt", &format!("{} C13 content committed by another client at {:?} was overwritten by a stale run", id, p));
                        }
                    }
                }
            }
            if id % 17 == 3 {
                let mut smp = format!("{} hist {} client {}: local={} hub-before={} -> {} sent={} skipped={} conflicts={}", class, h, c, case_tree(&local_sorted), case_tree(&at_puts), obs.exit, obs.sent, obs.skipped, obs.conflicts);
                smp.truncate(400);
                out.sample(smp);
            }
            id += 1;
        }
    }
    for d in ["HUB", "L0", "L1", "L2", "bin"] {
        let _ = std::fs::remove_dir_all(format!("{}/{}", absout, d));
    }
    out.add("distinct_nontrivial", distinct.len() as u64);
    out.add("spec_failures", nfail);
    out.finish();
    0
}
