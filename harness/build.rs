// Generates cli_mods.rs: the CLI's own source files compiled UNCHANGED into the harness.
use std::io::Write;
fn main() {
    let repo = std::env::var("VERIF_REPO").unwrap_or_else(|_| "/repo".to_string());
    let out = std::env::var("OUT_DIR").unwrap();
    let mut f = std::fs::File::create(format!("{}/cli_mods.rs", out)).unwrap();
    for m in ["plan", "reconcile", "archive", "wire", "meta", "transfer"] {
        writeln!(f, "#[path = \"{}/src/bin/copia/{}.rs\"] pub mod {};", repo, m, m).unwrap();
        println!("cargo:rerun-if-changed={}/src/bin/copia/{}.rs", repo, m);
    }
    println!("cargo:rerun-if-env-changed=VERIF_REPO");
}
