(* Driver for the extracted Coq models: reads case files written by the Rust
   harness, evaluates the model, prints one result line per case in the same
   format as the harness's impl.txt.  Trusted glue (parsing / printing only). *)
open Model

let rec pos_of_int n =
  if n = 1 then XH else if n land 1 = 0 then XO (pos_of_int (n lsr 1)) else XI (pos_of_int (n lsr 1))
let z_of_int n = if n = 0 then Z0 else if n < 0 then Zneg (pos_of_int (-n)) else Zpos (pos_of_int n)
let rec int_of_pos = function XH -> 1 | XO p -> 2 * int_of_pos p | XI p -> 2 * int_of_pos p + 1
let int_of_z = function Z0 -> 0 | Zpos p -> int_of_pos p | Zneg p -> - (int_of_pos p)

let unhex s =
  if s = "-" then [] else
  List.init (String.length s / 2) (fun i -> int_of_string ("0x" ^ String.sub s (2 * i) 2))
let hex l = if l = [] then "-" else String.concat "" (List.map (Printf.sprintf "%02x") l)

let split_ws s = List.filter (fun x -> x <> "") (String.split_on_char ' ' s)

let iter_lines file f =
  let ic = open_in file in
  (try while true do
       let l = input_line ic in
       if String.length l > 0 && l.[0] <> '#' then f l
     done with End_of_file -> ());
  close_in ic

(* ---------------- C17 ---------------- *)
let is_checkpoint i total = i = 0 || i = total || total <= 64 || i mod 997 = 0

let c17_line checked line =
  match split_ws line with
  | id :: win :: rest ->
    let ops = match rest with [] -> "-" | o :: _ -> o in
    let win = unhex win in
    let nops = if ops = "-" then 0 else String.length ops / 3 in
    let b = Buffer.create 256 in
    Buffer.add_string b (id ^ " ");
    let zw = List.map z_of_int win in
    (* ghost window as a queue: front list + reversed back list *)
    let front = ref win and back = ref [] in
    let pop () = (match !front with [] -> front := List.rev !back; back := [] | _ -> ());
      match !front with x :: r -> front := r; x | [] -> 0 in
    let init =
      if checked then (match rc_new_ck zw, frc_new_ck zw with Some r, Some f -> Some (r, f) | _ -> None)
      else Some (rc_new zw, frc_new zw) in
    (match init with
     | None -> Buffer.add_string b "0:PANIC"
     | Some (r0, f0) ->
       let r = ref r0 and f = ref f0 in
       let obs i =
         Buffer.add_string b (Printf.sprintf "%d:%d,%d,%d,%d,%d,%d;" i
           (int_of_z (rc_digest !r)) (int_of_z (ra !r)) (int_of_z (rb !r)) (int_of_z (rcount !r))
           (int_of_z (frc_digest !f)) (int_of_z (fcount !f))) in
       obs 0;
       (try
         for i = 1 to nops do
           let k = ops.[3 * (i - 1)] in
           let x = int_of_string ("0x" ^ String.sub ops (3 * (i - 1) + 1) 2) in
           let zx = z_of_int x in
           let step =
             if k = 'R' then begin
               let old = z_of_int (pop ()) in
               back := x :: !back;
               if checked then (match rc_roll_ck !r old zx, frc_roll_ck !f old zx with Some a, Some c -> Some (a, c) | _ -> None)
               else Some (rc_roll !r old zx, frc_roll !f old zx)
             end else begin
               back := x :: !back;
               if checked then (match rc_push_ck !r zx, frc_push_ck !f zx with Some a, Some c -> Some (a, c) | _ -> None)
               else Some (rc_push !r zx, frc_push !f zx)
             end in
           (match step with
            | None -> Buffer.add_string b (Printf.sprintf "%d:PANIC;" i); raise Exit
            | Some (a, c) -> r := a; f := c);
           if is_checkpoint i nops then obs i
         done
       with Exit -> ()));
    print_endline (Buffer.contents b)
  | _ -> ()

(* spec oracle on windows: `<id> <window hex>` -> `<id> <digest>` *)
let c17_spec line =
  match split_ws line with
  | id :: win :: _ ->
    let zw = List.map z_of_int (unhex win) in
    Printf.printf "%s %d\n" id (int_of_z (spec_digest_exec zw))
  | _ -> ()

let () =
  match Array.to_list Sys.argv with
  | _ :: "c17" :: file :: _ -> iter_lines file (c17_line false)
  | _ :: "c17-checked" :: file :: _ -> iter_lines file (c17_line true)
  | _ :: "c17-spec" :: file :: _ -> iter_lines file c17_spec
  | _ -> prerr_endline "usage: driver <kind> <cases file>"; exit 2
