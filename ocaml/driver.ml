(* Driver for the extracted Coq models: reads case files written by the Rust
   harness, evaluates the model, prints one result line per case in the same
   format as the harness's impl.txt.  Trusted glue (parsing / printing only). *)
open Model

let rec pos_of_int n =
  if n = 1 then XH else if n land 1 = 0 then XO (pos_of_int (n lsr 1)) else XI (pos_of_int (n lsr 1))
let z_of_int n = if n = 0 then Z0 else if n < 0 then Zneg (pos_of_int (-n)) else Zpos (pos_of_int n)
let rec int_of_pos = function XH -> 1 | XO p -> 2 * int_of_pos p | XI p -> 2 * int_of_pos p + 1
let int_of_z = function Z0 -> 0 | Zpos p -> int_of_pos p | Zneg p -> - (int_of_pos p)

let unhex s =
  if s = "-" then [] else
  List.init (String.length s / 2) (fun i -> int_of_string ("0x" ^ String.sub s (2 * i) 2))
let hex l = if l = [] then "-" else String.concat "" (List.map (Printf.sprintf "%02x") l)

let split_ws s = List.filter (fun x -> x <> "") (String.split_on_char ' ' s)

let iter_lines file f =
  let ic = open_in file in
  (try while true do
       let l = input_line ic in
       if String.length l > 0 && l.[0] <> '#' then f l
     done with End_of_file -> ());
  close_in ic

(* ---------------- C17 ---------------- *)
let is_checkpoint i total = i = 0 || i = total || total <= 64 || i mod 997 = 0

let c17_line checked line =
  match split_ws line with
  | id :: win :: rest ->
    let ops = match rest with [] -> "-" | o :: _ -> o in
    let win = unhex win in
    let nops = if ops = "-" then 0 else String.length ops / 3 in
    let b = Buffer.create 256 in
    Buffer.add_string b (id ^ " ");
    let zw = List.map z_of_int win in
    (* ghost window as a queue: front list + reversed back list *)
    let front = ref win and back = ref [] in
    let pop () = (match !front with [] -> front := List.rev !back; back := [] | _ -> ());
      match !front with x :: r -> front := r; x | [] -> 0 in
    let init =
      if checked then (match rc_new_ck zw, frc_new_ck zw with Some r, Some f -> Some (r, f) | _ -> None)
      else Some (rc_new zw, frc_new zw) in
    (match init with
     | None -> Buffer.add_string b "0:PANIC"
     | Some (r0, f0) ->
       let r = ref r0 and f = ref f0 in
       let obs i =
         Buffer.add_string b (Printf.sprintf "%d:%d,%d,%d,%d,%d,%d;" i
           (int_of_z (rc_digest !r)) (int_of_z (ra !r)) (int_of_z (rb !r)) (int_of_z (rcount !r))
           (int_of_z (frc_digest !f)) (int_of_z (fcount !f))) in
       obs 0;
       (try
         for i = 1 to nops do
           let k = ops.[3 * (i - 1)] in
           let x = int_of_string ("0x" ^ String.sub ops (3 * (i - 1) + 1) 2) in
           let zx = z_of_int x in
           let step =
             if k = 'R' then begin
               let old = z_of_int (pop ()) in
               back := x :: !back;
               if checked then (match rc_roll_ck !r old zx, frc_roll_ck !f old zx with Some a, Some c -> Some (a, c) | _ -> None)
               else Some (rc_roll !r old zx, frc_roll !f old zx)
             end else begin
               back := x :: !back;
               if checked then (match rc_push_ck !r zx, frc_push_ck !f zx with Some a, Some c -> Some (a, c) | _ -> None)
               else Some (rc_push !r zx, frc_push !f zx)
             end in
           (match step with
            | None -> Buffer.add_string b (Printf.sprintf "%d:PANIC;" i); raise Exit
            | Some (a, c) -> r := a; f := c);
           if is_checkpoint i nops then obs i
         done
       with Exit -> ()));
    print_endline (Buffer.contents b)
  | _ -> ()

(* spec oracle on windows: `<id> <window hex>` -> `<id> <digest>` *)
let c17_spec line =
  match split_ws line with
  | id :: win :: _ ->
    let zw = List.map z_of_int (unhex win) in
    Printf.printf "%s %d\n" id (int_of_z (spec_digest_exec zw))
  | _ -> ()


(* ---------------- Delta / patch (C01 C05 C16) ---------------- *)
let rec nat_of_int n = if n <= 0 then O else S (nat_of_int (n - 1))
let nat_of_int n = (* tail-recursive build *)
  let rec go acc k = if k <= 0 then acc else go (S acc) (k - 1) in go O n
let ten = z_of_int 10
let z_of_dec s =
  let acc = ref Z0 in
  String.iter (fun c -> acc := Z.add (Z.mul !acc ten) (z_of_int (Char.code c - 48))) s; !acc
let zl_of_hex s = List.map z_of_int (unhex s)
let hex_of_zl l = hex (List.map int_of_z l)

let ops_string ops =
  if ops = [] then "-" else
  String.concat "," (List.map (function
    | Copy (o, l) -> Printf.sprintf "C%d:%d" (int_of_z o) (int_of_z l)
    | Lit d -> "L" ^ hex_of_zl d) ops)

let sig_string (sg : z list signature) =
  Printf.sprintf "S bs=%d fs=%d n=%d w=%s" (int_of_z sg.s_block_size) (int_of_z sg.s_file_size)
    (List.length sg.s_blocks)
    (String.concat "," (List.map (fun b -> Printf.sprintf "%d:%d" (int_of_z b.b_idx) (int_of_z b.b_weak)) sg.s_blocks))

let delta_string (d : z list delta) =
  Printf.sprintf "D bs=%d ss=%d bz=%d ops=%s" (int_of_z d.d_block_size) (int_of_z d.d_source_size)
    (int_of_z d.d_basis_size) (ops_string d.d_ops)

(* `<id> <bs> <basis hex> <src hex>` *)
let cdelta_line line =
  match split_ws line with
  | id :: bs :: basis :: src :: _ ->
    let bsn = nat_of_int (int_of_string bs) in
    let basis = zl_of_hex basis and src = zl_of_hex src in
    let sg = m_signature bsn basis in
    let d = m_delta bsn sg src in
    let r = match m_patch false true basis d with POk o -> if o = src then "RT_OK" else "RT_WRONG" | _ -> "RT_ERR" in
    Printf.printf "%s %s | %s | lits=%d %s\n" id (sig_string sg) (delta_string d) (int_of_z (lits d.d_ops)) r
  | _ -> ()

let cgreedy_line line =
  match split_ws line with
  | id :: bs :: basis :: src :: _ ->
    let bsn = nat_of_int (int_of_string bs) in
    Printf.printf "%s %d\n" id (int_of_z (m_greedy bsn (zl_of_hex basis) (zl_of_hex src)))
  | _ -> ()

let parse_ops s =
  if s = "-" then [] else
  List.map (fun t ->
    if t.[0] = 'C' then
      (match String.split_on_char ':' (String.sub t 1 (String.length t - 1)) with
       | [o; l] -> Copy (z_of_dec o, z_of_dec l) | _ -> failwith "bad op")
    else Lit (zl_of_hex (String.sub t 1 (String.length t - 1)))) (String.split_on_char ',' s)

(* `<id> <checked> <verify> <basis hex> <block_size> <source_size> <basis_size> <ops> <checksum preimage hex | !>` *)
let cpatch_line line =
  match split_ws line with
  | id :: checked :: verify :: basis :: bsz :: ss :: bz :: ops :: ck :: _ ->
    let d = { d_block_size = z_of_dec bsz; d_source_size = z_of_dec ss; d_basis_size = z_of_dec bz;
              d_ops = parse_ops ops; d_checksum = (if ck = "!" then [z_of_int (-1)] else zl_of_hex ck) } in
    let r = m_patch (checked = "1") (verify = "1") (zl_of_hex basis) d in
    Printf.printf "%s %s\n" id (match r with
      | POk o -> "OK " ^ hex_of_zl o | PErrBounds -> "ERR_BOUNDS" | PErrIo -> "ERR_IO"
      | PErrChecksum -> "ERR_CHECKSUM" | PPanic -> "PANIC")
  | _ -> ()

(* ---------------- Hub (C03 C10) ---------------- *)
let kv_of s = match String.index_opt s '=' with
  | Some i -> (String.sub s 0 i, String.sub s (i + 1) (String.length s - i - 1)) | None -> (s, "")
let split_on c s = if s = "" then [] else String.split_on_char c s
let exp_of s = if s = "n" then None else Some (zl_of_hex (String.sub s 1 (String.length s - 1)))
let req_of s : hreq =
  match String.split_on_char ':' s with
  | ["P"; p; e; d; l; ch] ->
    Put (zl_of_hex p, exp_of e, zl_of_hex d, z_of_dec l, (if ch = "." then [] else List.map zl_of_hex (String.split_on_char '+' ch)))
  | ["D"; p; e] -> Del (zl_of_hex p, exp_of e)
  | ["G"; p] -> Get (zl_of_hex p)
  | _ -> failwith ("bad req " ^ s)
let tree_str l =
  let l = List.sort compare (List.map (fun (p, c) -> (hex_of_zl p, hex_of_zl c)) l) in
  if l = [] then "-" else String.concat "," (List.map (fun (p, c) -> p ^ "=" ^ c) l)
let hreply_str (rp : hreply) = match rp with
  | PutRes (c, cur) -> Printf.sprintf "PutResult:%b:%s" c (match cur with Some d -> "h" ^ hex_of_zl d | None -> "none")
  | DelRes (c, cur) -> Printf.sprintf "DeleteResult:%b:%s" c (match cur with Some d -> "h" ^ hex_of_zl d | None -> "none")
  | GetRes (Some c) -> Printf.sprintf "Content:%d:h%s:HASHOK:%s" (List.length c) (hex_of_zl c) (hex_of_zl c)
  | GetRes None -> "Error:not_found"
  | ErrRes -> "Error:mismatch"

let chub_line line =
  match split_ws line with
  | id :: fields ->
    let tbl = ref [] and init = ref [] and progs = ref [] and sched = ref [] in
    List.iter (fun f ->
      let (k, v) = kv_of f in
      if k = "T" then tbl := List.map (fun e -> match String.split_on_char ':' e with
          | [c; h] -> (zl_of_hex c, List.map (fun ch -> z_of_int (Char.code ch)) (List.init (String.length h) (String.get h)))
          | _ -> failwith "bad T") (split_on ';' v)
      else if k = "I" then init := (if v = "-" then [] else List.map (fun e -> match String.split_on_char ':' e with
          | [p; c] -> (zl_of_hex p, zl_of_hex c) | _ -> failwith "bad I") (split_on ';' v))
      else if k = "S" then sched := (if v = "-" then [] else List.map (fun e ->
          let n = nat_of_int (int_of_string (String.sub e 1 (String.length e - 1))) in
          if e.[0] = 'k' then Kill n else Step n) (split_on ',' v))
      else if String.length k > 0 && k.[0] = 'P' then
        progs := !progs @ [ (if v = "-" then [] else List.map req_of (split_on ',' v)) ]) fields;
    let ((sents, final), snaps) = hub_exec !tbl !init !progs !sched in
    let b = Buffer.create 256 in
    Buffer.add_string b (id ^ " ");
    List.iteri (fun i se ->
      let rs = List.map (fun (((_, rp), _), _) -> hreply_str rp) se in
      Buffer.add_string b (Printf.sprintf "R%d=%s " i (if rs = [] then "-" else String.concat "," rs))) sents;
    Buffer.add_string b ("F=" ^ tree_str final);
    Buffer.add_string b (" N=" ^ (if snaps = [] then "-" else String.concat ";" (List.map tree_str snaps)));
    print_endline (Buffer.contents b)
  | _ -> ()

(* ---------------- Wire loop (C11 C12 C13) ---------------- *)
let wreq_of s : wreq option =
  if s = "X" then None else
  match String.split_on_char ':' s with
  | ["H"; v] -> Some (SHello (z_of_dec v))
  | ["L"] -> Some SList
  | ["B"] -> Some SBye
  | ["G"; p] -> Some (SGet (zl_of_hex p))
  | ["P"; p; e; l; d] -> Some (SPut (zl_of_hex p, exp_of e, z_of_dec l, zl_of_hex d))
  | ["D"; p; e] -> Some (SDel (zl_of_hex p, exp_of e))
  | _ -> failwith ("bad wreq " ^ s)
let wreply_str (rp : wreply) = match rp with
  | RHello -> "Hello:1"
  | RFingerprints l ->
    let l = List.sort compare (List.map (fun (p, d) -> (hex_of_zl p, hex_of_zl d)) l) in
    "Fingerprints:" ^ String.concat "," (List.map (fun (p, d) -> p ^ "=h" ^ d) l)
  | RContent c -> Printf.sprintf "Content:%d:h%s:HASHOK:%s" (List.length c) (hex_of_zl c) (hex_of_zl c)
  | RNotFound -> "Error:not_found"
  | RBadPath -> "Error:bad_path"
  | RMismatch -> "Error:mismatch"
  | RPut (c, cur) -> Printf.sprintf "PutResult:%b:%s" c (match cur with Some d -> "h" ^ hex_of_zl d | None -> "none")
  | RDel (c, cur) -> Printf.sprintf "DeleteResult:%b:%s" c (match cur with Some d -> "h" ^ hex_of_zl d | None -> "none")

let cwire_line line =
  match split_ws line with
  | id :: fields ->
    let tbl = ref [] and init = ref [] and dec = ref [] and inp = ref [] in
    List.iter (fun f ->
      let (k, v) = kv_of f in
      if k = "T" then tbl := List.map (fun e -> match String.split_on_char ':' e with
          | [c; h] -> (zl_of_hex c, List.map (fun ch -> z_of_int (Char.code ch)) (List.init (String.length h) (String.get h)))
          | _ -> failwith "bad T") (split_on ';' v)
      else if k = "I" then init := (if v = "-" then [] else List.map (fun e -> match String.split_on_char ':' e with
          | [p; c] -> (zl_of_hex p, zl_of_hex c) | _ -> failwith "bad I") (split_on ';' v))
      else if k = "D" then dec := (if v = "-" then [] else List.map (fun e ->
          match String.index_opt e '>' with
          | Some i -> (zl_of_hex (String.sub e 0 i), wreq_of (String.sub e (i + 1) (String.length e - i - 1)))
          | None -> failwith "bad D") (split_on ';' v))
      else if k = "IN" then inp := zl_of_hex v) fields;
    let (((ex, replies), tree), allocs) = wire_exec !tbl !init !dec !inp in
    Printf.printf "%s %s R=%s F=%s A=%s\n" id
      (match ex with Exit0 -> "EXIT0" | ExitError -> "EXITERR" | OutOfFuel -> "OUTOFFUEL")
      (if replies = [] then "-" else String.concat "," (List.map wreply_str replies))
      (tree_str tree)
      (if allocs = [] then "-" else String.concat "," (List.map (fun a -> string_of_int (int_of_z a)) allocs))
  | _ -> ()

(* ---------------- hub-sync runs (C13) ---------------- *)
let int_of_nat n = let rec go acc = function O -> acc | S m -> go (acc + 1) m in go 0 n
let csync_line line =
  match split_ws line with
  | id :: fields ->
    let tbl = ref [] and l = ref [] and h = ref [] and c = ref [] in
    let tree v = if v = "-" then [] else List.map (fun e -> match String.split_on_char ':' e with
        | [p; c] -> (zl_of_hex p, zl_of_hex c) | _ -> failwith "bad tree") (split_on ';' v) in
    List.iter (fun f ->
      let (k, v) = kv_of f in
      if k = "T" then tbl := List.map (fun e -> match String.split_on_char ':' e with
          | [c; h] -> (zl_of_hex c, List.map (fun ch -> z_of_int (Char.code ch)) (List.init (String.length h) (String.get h)))
          | _ -> failwith "bad T") (split_on ';' v)
      else if k = "L" then l := tree v else if k = "H" then h := tree v else if k = "C" then c := tree v) fields;
    let (((t, sent), skipped), conflicts) = sync_exec !tbl !l !h !c in
    let conflicts = int_of_nat conflicts in
    Printf.printf "%s %s sent=%d skipped=%d conflicts=%d F=%s\n" id (if conflicts = 0 then "EXIT0" else "EXITERR")
      (int_of_nat sent) (int_of_nat skipped) conflicts (tree_str t)
  | _ -> ()
(* ---------------- C20: codecs ---------------- *)
(* exact decimal of an extracted Z in 0 .. 2^64-1 (OCaml's int is 63-bit) *)
let u64s z =
  let rec bits n p = if n > 64 then failwith "u64s: more than 64 bits" else
    match p with XH -> 1L | XO q -> Int64.shift_left (bits (n + 1) q) 1
               | XI q -> Int64.logor (Int64.shift_left (bits (n + 1) q) 1) 1L in
  match z with Z0 -> "0" | Zpos p -> Printf.sprintf "%Lu" (bits 1 p) | Zneg _ -> failwith "u64s: negative"
let hexz (l : z list) =
  if l = [] then "-" else begin
    let b = Buffer.create 64 in
    List.iter (fun x -> Buffer.add_string b (Printf.sprintf "%02x" (int_of_z x))) l; Buffer.contents b end
let zl_of_hex_fast s =
  if s = "-" then [] else begin
    let n = String.length s / 2 in
    let tbl = Array.init 256 z_of_int in
    let hv c = match c with '0'..'9' -> Char.code c - 48 | 'a'..'f' -> Char.code c - 87 | 'A'..'F' -> Char.code c - 55 | _ -> failwith "hex" in
    let r = ref [] in
    for i = n - 1 downto 0 do r := tbl.(16 * hv s.[2 * i] + hv s.[2 * i + 1]) :: !r done; !r end

let c20_err = function
  | EIo -> "ERR_IO" | EType -> "ERR_TYPE" | EMagic -> "ERR_MAGIC" | EVersion -> "ERR_VERSION"
  | ELength -> "ERR_LENGTH" | EDecode -> "ERR_DECODE" | EPayload -> "ERR_PAYLOAD"
let c20_hdr h =
  Printf.sprintf "magic=%s len=%s type=%s ver=%s flags=%s" (hexz [h.h_m0; h.h_m1; h.h_m2; h.h_m3])
    (u64s h.h_length) (u64s (mt_code h.h_type)) (u64s h.h_version) (u64s h.h_flags)
let c20_sig (s : z list signature) =
  Printf.sprintf "SIG %s %s %s" (u64s s.s_block_size) (u64s s.s_file_size)
    (if s.s_blocks = [] then "-" else
     String.concat "," (List.map (fun b -> u64s b.b_idx ^ ":" ^ u64s b.b_weak ^ ":" ^ hexz b.b_strong) s.s_blocks))
let c20_ops ops =
  if ops = [] then "-" else
  String.concat "," (List.map (function
    | Copy (o, l) -> "C" ^ u64s o ^ ":" ^ u64s l
    | Lit d -> "L" ^ hexz d) ops)
let c20_delta (d : z list delta) =
  Printf.sprintf "DELTA %s %s %s %s %s" (u64s d.d_block_size) (u64s d.d_source_size) (u64s d.d_basis_size)
    (c20_ops d.d_ops) (hexz d.d_checksum)
let c20_msg = function
  | MSigReq (f, b) -> Printf.sprintf "SIGREQ %s %s" (u64s f) (u64s b)
  | MSigResp (f, s) -> Printf.sprintf "SIGRESP %s %s" (u64s f) (c20_sig s)
  | MDeltaData (f, d) -> Printf.sprintf "DELTADATA %s %s" (u64s f) (c20_delta d)
  | MAck (f, ok, m) -> Printf.sprintf "ACK %s %d %s" (u64s f) (if ok then 1 else 0)
                         (match m with None -> "N" | Some s -> "S" ^ hexz s)
  | MError (c, s) -> Printf.sprintf "ERROR %s %s" (u64s c) (hexz s)
  | MPing s -> "PING " ^ u64s s
  | MPong s -> "PONG " ^ u64s s

let c20_parse_sig = function
  | bs :: fs :: blocks :: _ ->
    { s_block_size = z_of_dec bs; s_file_size = z_of_dec fs;
      s_blocks = if blocks = "-" then [] else
        List.map (fun t -> match String.split_on_char ':' t with
          | [i; w; h] -> { b_idx = z_of_dec i; b_weak = z_of_dec w; b_strong = zl_of_hex_fast h }
          | _ -> failwith "bad block") (String.split_on_char ',' blocks) }
  | _ -> failwith "bad SIG"
let c20_parse_ops s =
  if s = "-" then [] else
  List.map (fun t ->
    if t.[0] = 'C' then
      (match String.split_on_char ':' (String.sub t 1 (String.length t - 1)) with
       | [o; l] -> Copy (z_of_dec o, z_of_dec l) | _ -> failwith "bad op")
    else Lit (zl_of_hex_fast (String.sub t 1 (String.length t - 1)))) (String.split_on_char ',' s)
let c20_parse_delta = function
  | bs :: ss :: bz :: ops :: ck :: _ ->
    { d_block_size = z_of_dec bs; d_source_size = z_of_dec ss; d_basis_size = z_of_dec bz;
      d_ops = c20_parse_ops ops; d_checksum = zl_of_hex_fast ck }
  | _ -> failwith "bad DELTA"
let c20_parse_msg = function
  | "SIGREQ" :: f :: b :: _ -> MSigReq (z_of_dec f, z_of_dec b)
  | "SIGRESP" :: f :: "SIG" :: r -> MSigResp (z_of_dec f, c20_parse_sig r)
  | "DELTADATA" :: f :: "DELTA" :: r -> MDeltaData (z_of_dec f, c20_parse_delta r)
  | "ACK" :: f :: ok :: m :: _ ->
    MAck (z_of_dec f, ok = "1", if m = "N" then None else Some (zl_of_hex_fast (String.sub m 1 (String.length m - 1))))
  | "ERROR" :: c :: s :: _ -> MError (z_of_dec c, zl_of_hex_fast s)
  | "PING" :: s :: _ -> MPing (z_of_dec s)
  | "PONG" :: s :: _ -> MPong (z_of_dec s)
  | _ -> failwith "bad message"

(* `<id> <KIND> args...` -> `<id> <result>`; formats documented in harness/src/c20.rs *)
let c20_line line =
  match split_ws line with
  | id :: kind :: args ->
    let utf8_of flag = (fun (_ : z list) -> flag = "1") in
    let res = match kind, args with
      | "HDR", h :: _ ->
        (match header_decode (zl_of_hex_fast h) with ROk hd -> "OK " ^ c20_hdr hd | RErr e -> c20_err e)
      | "HDRREAD", h :: _ ->
        (match read_from (zl_of_hex_fast h) with
         | ROk (hd, rest) -> Printf.sprintf "OK %s rest=%d" (c20_hdr hd) (List.length rest)
         | RErr e -> c20_err e)
      | "HDRENC", checked :: magic :: len :: ty :: ver :: flags :: _ ->
        (match zl_of_hex_fast magic, from_u8 (z_of_dec ty) with
         | [m0; m1; m2; m3], Some t ->
           let h = { h_m0 = m0; h_m1 = m1; h_m2 = m2; h_m3 = m3; h_length = z_of_dec len; h_type = t;
                     h_version = z_of_dec ver; h_flags = z_of_dec flags } in
           (match header_encode_ck (checked = "1") h with Some b -> hexz b | None -> "PANIC")
         | _ -> failwith "bad HDRENC")
      | "MSGDEC", h :: u :: _ ->
        (match decode_message (utf8_of u) (zl_of_hex_fast h) with
         | Some (m, _) -> "OK " ^ c20_msg m | None -> "ERR_DECODE")
      | "SIGDEC", h :: _ ->
        (match decode_signature (zl_of_hex_fast h) with Some (s, _) -> "OK " ^ c20_sig s | None -> "ERR")
      | "DELTADEC", h :: _ ->
        (match decode_delta (zl_of_hex_fast h) with Some (d, _) -> "OK " ^ c20_delta d | None -> "ERR")
      | "CODEC", h :: u :: _ ->
        (match read_message (utf8_of u) (zl_of_hex_fast h) with
         | (_, ROk (m, rest)) -> Printf.sprintf "OK %s rest=%d" (c20_msg m) (List.length rest)
         | (_, RErr e) -> c20_err e)
      | "MSGENC", m -> hexz (encode_message (c20_parse_msg m))
      | "SIGENC", "SIG" :: r -> hexz (encode_signature (c20_parse_sig r))
      | "DELTAENC", "DELTA" :: r -> hexz (encode_delta (c20_parse_delta r))
      | "CODECENC", m ->
        (match write_message (c20_parse_msg m) with ROk b -> hexz b | RErr e -> c20_err e)
      | "CLIDELTA", h :: _ ->
        (match run_delta_top (zl_of_hex_fast h) with Proceed _ -> "PROCEED" | CliError -> "EXITERROR")
      | "CLIPATCH", h :: _ ->
        (match run_patch_top (zl_of_hex_fast h) with Proceed _ -> "PROCEED" | CliError -> "EXITERROR")
      | _ -> failwith ("c20: bad case line " ^ id) in
    print_string id; print_char ' '; print_endline res
  | _ -> ()


(* ---------------- bisync histories (C02 C06 C07) ---------------- *)
let action_str = function
  | PropAB -> "PropagateAtoB" | PropBA -> "PropagateBtoA" | Converge -> "ConvergeIdentical"
  | DelA -> "DeleteA" | DelB -> "DeleteB" | ConfBoth -> "Conflict(BothChanged)" | ConfDelMod -> "Conflict(DeleteVsModify)"
let hex12_of d = let h = hex_of_zl d in if String.length h >= 12 then String.sub h 0 12 else h
let cbisync_line line =
  match split_ws line with
  | id :: fields ->
    let tbl = ref [] and host = ref [] and a = ref [] and b = ref [] and ops = ref [] in
    let tree v = if v = "-" then [] else List.map (fun e -> match String.split_on_char ':' e with
        | [p; c] -> (zl_of_hex p, zl_of_hex c) | _ -> failwith "bad tree") (split_on ';' v) in
    List.iter (fun f ->
      let (k, v) = kv_of f in
      if k = "T" then tbl := List.map (fun e -> match String.split_on_char ':' e with
          | [c; d] -> (zl_of_hex c, zl_of_hex d) | _ -> failwith "bad T") (split_on ';' v)
      else if k = "HOST" then host := zl_of_hex v
      else if k = "A" then a := tree v else if k = "B" then b := tree v
      else if k = "OPS" then ops := (if v = "-" then [] else List.map (fun o ->
          match String.split_on_char ':' o with
          | ["WA"; p; c] -> HWrite (SA, zl_of_hex p, zl_of_hex c)
          | ["WB"; p; c] -> HWrite (SB, zl_of_hex p, zl_of_hex c)
          (* MA / MB: the same write, carrying the opposite side's mtime on the real file system; mtimes are not state of the model *)
          | ["MA"; p; c] -> HWrite (SA, zl_of_hex p, zl_of_hex c)
          | ["MB"; p; c] -> HWrite (SB, zl_of_hex p, zl_of_hex c)
          | ["DA"; p] -> HDelete (SA, zl_of_hex p)
          | ["DB"; p] -> HDelete (SB, zl_of_hex p)
          | ["R"] -> HRun
          | _ -> HFault) (split_on ',' v))) fields;
    let states = bi_hist !tbl !host (bi_init !a !b) !ops in
    let st (((ta, tb), z), r) =
      Printf.sprintf "A=%s;B=%s;Z=%s;X=%s;P=%s" (tree_str ta) (tree_str tb)
        (match z with None -> "none" | Some l ->
           let l = List.sort compare (List.map (fun (p, d) -> (hex_of_zl p, hex12_of d)) l) in
           if l = [] then "-" else String.concat "," (List.map (fun (p, d) -> p ^ "=" ^ d) l))
        (match r with None -> "-" | Some (ExitOk, _) -> "OK" | Some (ExitConflicts, _) -> "CONFLICTS" | Some (ExitIoError, _) -> "IOERR")
        (match r with None -> "-" | Some (_, pl) -> if pl = [] then "-" else
           String.concat "," (List.map (fun (p, act) -> action_str act ^ ":" ^ hex_of_zl p) pl)) in
    Printf.printf "%s %s\n" id (if states = [] then "-" else String.concat "|" (List.map st states))
(* ---------------- C19: glob / is_excluded / needs_transfer / build_plan / listing ---------------- *)
(* strings arrive as hex of UTF-8 bytes; the matcher and the planner work on characters *)
let utf8_decode (bs : int list) : int list =
  let rec go acc = function
    | [] -> List.rev acc
    | b :: r when b < 0x80 -> go (b :: acc) r
    | b :: b1 :: r when b land 0xE0 = 0xC0 -> go ((((b land 0x1F) lsl 6) lor (b1 land 0x3F)) :: acc) r
    | b :: b1 :: b2 :: r when b land 0xF0 = 0xE0 ->
      go ((((b land 0x0F) lsl 12) lor ((b1 land 0x3F) lsl 6) lor (b2 land 0x3F)) :: acc) r
    | b :: b1 :: b2 :: b3 :: r when b land 0xF8 = 0xF0 ->
      go ((((b land 0x07) lsl 18) lor ((b1 land 0x3F) lsl 12) lor ((b2 land 0x3F) lsl 6) lor (b3 land 0x3F)) :: acc) r
    | _ -> failwith "bad utf8" in
  go [] bs
let utf8_encode (cs : int list) : int list =
  List.concat_map (fun c ->
    if c < 0x80 then [c]
    else if c < 0x800 then [0xC0 lor (c lsr 6); 0x80 lor (c land 0x3F)]
    else if c < 0x10000 then [0xE0 lor (c lsr 12); 0x80 lor ((c lsr 6) land 0x3F); 0x80 lor (c land 0x3F)]
    else [0xF0 lor (c lsr 18); 0x80 lor ((c lsr 12) land 0x3F); 0x80 lor ((c lsr 6) land 0x3F); 0x80 lor (c land 0x3F)]) cs
let chars_of_hex s = List.map z_of_int (utf8_decode (unhex s))
let hex_of_chars l = hex (utf8_encode (List.map int_of_z l))

(* decimal text of an arbitrary Z (sizes reach 2^64-1) *)
let dec_of_z z =
  let rec bits acc = function XH -> true :: acc | XO p -> bits (false :: acc) p | XI p -> bits (true :: acc) p in
  let of_pos p =
    (* bits most significant first; decimal digits least significant first *)
    let ds = ref [0] in
    List.iter (fun b ->
      let carry = ref (if b then 1 else 0) in
      ds := List.map (fun d -> let v = 2 * d + !carry in carry := v / 10; v mod 10) !ds;
      if !carry > 0 then ds := !ds @ [!carry]) (bits [] p |> List.rev |> List.rev);
    String.concat "" (List.rev_map string_of_int !ds) in
  match z with Z0 -> "0" | Zpos p -> of_pos p | Zneg p -> "-" ^ of_pos p
let z_of_sdec s =
  if String.length s > 0 && s.[0] = '-' then Z.opp (z_of_dec (String.sub s 1 (String.length s - 1))) else z_of_dec s

let b01 b = if b then "1" else "0"
let hexlist l = if l = [] then "-" else String.concat "," (List.map hex_of_chars l)

let rec take_n n l = if n = 0 then ([], l) else match l with x :: r -> let (a, b) = take_n (n - 1) r in (x :: a, b) | [] -> failwith "short case"

let c19_line line =
  match split_ws line with
  | id :: "G" :: pat :: text :: _ ->
    let p = chars_of_hex pat and t = chars_of_hex text in
    Printf.printf "%s G m=%s gm=%s\n" id (b01 (m_glob_match p t)) (b01 (m_gm p t))
  | id :: "H" :: pat :: text :: _ ->
    Printf.printf "%s H m=%s\n" id (b01 (m_glob_match (chars_of_hex pat) (chars_of_hex text)))
  | id :: "E" :: rel :: n :: rest ->
    let (pats, _) = take_n (int_of_string n) rest in
    let pats = List.map chars_of_hex pats and rel = chars_of_hex rel in
    Printf.printf "%s E x=%s spec=%s\n" id (b01 (m_is_excluded rel pats)) (b01 (m_is_excluded_gm rel pats))
  | id :: "N" :: ss :: sm :: present :: ds :: dm :: _ ->
    let s = { fm_size = z_of_dec ss; fm_mtime = z_of_sdec sm } in
    let d = if present = "1" then Some { fm_size = z_of_dec ds; fm_mtime = z_of_sdec dm } else None in
    Printf.printf "%s N %s\n" id (b01 (m_needs_transfer s d))
  | id :: "P" :: del :: n :: rest ->
    let (pats, rest) = take_n (int_of_string n) rest in
    let read_map rest =
      match rest with
      | cnt :: rest ->
        let (fields, rest) = take_n (3 * int_of_string cnt) rest in
        let rec build m = function
          | p :: sz :: mt :: r -> build (m_mm_insert (chars_of_hex p) { fm_size = z_of_dec sz; fm_mtime = z_of_sdec mt } m) r
          | _ -> m in
        (build [] fields, rest)
      | [] -> failwith "short case" in
    let (src, rest) = read_map rest in
    let (dst, _) = read_map rest in
    let plan = m_build_plan src dst (List.map chars_of_hex pats) (del = "1") in
    Printf.printf "%s P T=%s S=%s D=%s\n" id (hexlist plan.transfer) (dec_of_z plan.skipped) (hexlist plan.sp_delete)
  | id :: "L" :: bytes :: _ ->
    let m = m_parse_listing (zl_of_hex bytes) in
    let body = if m = [] then "-" else
      String.concat "," (List.map (fun (p, fm) -> Printf.sprintf "%s:%s:%s" (hex_of_zl p) (dec_of_z fm.fm_size) (dec_of_z fm.fm_mtime)) m) in
    Printf.printf "%s L n=%d %s\n" id (List.length m) body
  | _ -> ()

(* ---------------- C18: reconcile_path / reconcile ---------------- *)
let action_string = function
  | Noop -> "Noop" | PropagateAtoB -> "PropagateAtoB" | PropagateBtoA -> "PropagateBtoA"
  | ConvergeIdentical -> "ConvergeIdentical" | DeleteA -> "DeleteA" | DeleteB -> "DeleteB"
  | Conflict BothChanged -> "Conflict(BothChanged)" | Conflict DeleteVsModify -> "Conflict(DeleteVsModify)"
let parse_fp s =
  if s = "-" then None else
  match String.split_on_char ':' s with
  | [d; t] -> Some { blake3 = zl_of_hex d; ftype = (if t = "S" then Symlink else File) }
  | _ -> failwith "bad fingerprint"

let c18_line line =
  match split_ws line with
  | id :: "R" :: a :: b :: z :: _ ->
    let a = parse_fp a and b = parse_fp b and z = parse_fp z in
    Printf.printf "%s R %s table=%s\n" id (action_string (m_reconcile_path a b z)) (action_string (m_table a b z))
  | id :: "T" :: trust :: rest ->
    let read_map rest =
      match rest with
      | cnt :: rest ->
        let (fields, rest) = take_n (2 * int_of_string cnt) rest in
        let rec build m = function
          | p :: f :: r -> (match parse_fp f with Some fp -> build (m_fp_insert (zl_of_hex p) fp m) r | None -> failwith "absent fp in a map")
          | _ -> m in
        (build [] fields, rest)
      | [] -> failwith "short case" in
    let (a, rest) = read_map rest in
    let (b, rest) = read_map rest in
    let (z, _) = read_map rest in
    let res = m_reconcile a b z (trust = "1") in
    Printf.printf "%s T %s\n" id
      (if res = [] then "-" else String.concat "," (List.map (fun (p, x) -> hex_of_zl p ^ "=" ^ action_string x) res))
  | _ -> ()

(* ---------------- one-way sync runs (C04 C14 C15) ---------------- *)
(* paths and patterns are sequences of Unicode scalar values (Rust str / chars()), contents are bytes *)
let coneway_line line =
  match split_ws line with
  | id :: fields ->
    let src = ref [] and dst = ref [] and ex = ref [] and del = ref false and dry = ref false and order = ref [] and fail = ref [] in
    let tree v = if v = "-" then [] else List.map (fun e -> match String.split_on_char ':' e with
        | [p; c; m] -> (chars_of_hex p, (zl_of_hex c, z_of_dec m)) | _ -> failwith "bad tree") (split_on ';' v) in
    let plist v = if v = "-" then [] else List.map chars_of_hex (split_on ',' v) in
    List.iter (fun f ->
      let (k, v) = kv_of f in
      if k = "SRC" then src := tree v else if k = "DST" then dst := tree v
      else if k = "EX" then ex := plist v else if k = "DEL" then del := (v = "1") else if k = "DRY" then dry := (v = "1")
      else if k = "ORDER" then order := plist v else if k = "FAIL" then fail := plist v) fields;
    let r = ow_exec !src !dst !ex !del !dry !order !fail in
    let hl l = if l = [] then "-" else String.concat "," (List.map hex_of_chars l) in
    let t = ow_tree_list r.r_dst in
    let ts = if t = [] then "-" else String.concat "," (List.map (fun (p, (c, m)) -> Printf.sprintf "%s=%s@%s" (hex_of_chars p) (hex_of_zl c) (dec_of_z m)) t) in
    Printf.printf "%s KIND=%s EXIT=%s T=%s S=%s D=%s SENT=%s FAILED=%s DST=%s\n" id
      (match r.r_kind with NoFiles -> "NOFILES" | DryRun -> "DRYRUN" | UpToDate -> "UPTODATE" | Ran -> "RAN")
      (if r.r_exit_ok then "0" else "1") (hl r.r_plan.transfer) (dec_of_z r.r_plan.skipped) (hl r.r_plan.sp_delete)
      (dec_of_z r.r_sent) (dec_of_z r.r_failed) ts
  | _ -> ()

(* shell quoting: `<id> Q <hex>` -> unquote(quote s) ; `<id> N <hex>,<hex>..` -> xargs0(nul_list l) *)
let cquote_line line =
  match split_ws line with
  | [id; "Q"; h] ->
    let s = zl_of_hex h in
    let w = quoted_word s in
    Printf.printf "%s Q %s %s\n" id (hex_of_zl w) (match unquote_word w with Some (x, rest) -> hex_of_zl x ^ "|" ^ hex_of_zl rest | None -> "NONE")
  | [id; "N"; l] ->
    let ps = if l = "-" then [] else List.map zl_of_hex (split_on ',' l) in
    let j = nul_list ps in
    Printf.printf "%s N %s %s\n" id (hex_of_zl j) (let r = xargs0 j in if r = [] then "-" else String.concat "," (List.map hex_of_zl r))
  | _ -> ()

(* ---------------- crash states of one-way deliveries (C09) ---------------- *)
let ccrash_line line =
  match split_ws line with
  | id :: fields ->
    let dst = ref [] and ds = ref [] and sched = ref [] and push = ref false in
    List.iter (fun f ->
      let (k, v) = kv_of f in
      if k = "DST" then dst := (if v = "-" then [] else List.map (fun e -> match String.split_on_char ':' e with
          | [p; c] -> (zl_of_hex p, zl_of_hex c) | _ -> failwith "bad DST") (split_on ';' v))
      else if k = "DS" then ds := (if v = "-" then [] else List.map (fun e -> match String.split_on_char ':' e with
          | [p; ch; m] -> (zl_of_hex p, ((if ch = "." then [] else List.map zl_of_hex (String.split_on_char '+' ch)), z_of_dec m))
          | _ -> failwith "bad DS") (split_on ';' v))
      else if k = "SCHED" then sched := (if v = "-" then [] else List.map (fun x -> nat_of_int (int_of_string x)) (split_on ',' v))
      else if k = "PUSH" then push := (v = "1")) fields;
    let (t, st) = crash_exec !dst !ds !sched !push in
    Printf.printf "%s T=%s ST=%s\n" id
      (if t = [] then "-" else String.concat ";" (List.map (fun (p, c) -> hex_of_zl p ^ "=" ^ (match c with Some b -> hex_of_zl b | None -> "~")) t))
      (if st = [] then "-" else String.concat "," (List.map (function Some b -> hex_of_zl b | None -> "~") st))
  | _ -> ()

(* ---------------- bisync step lists and crash states (C08) ---------------- *)
let side_str = function SA -> "A" | SB -> "B"
let fstep_str = function
  | FStage (sd, q) -> "Stage:" ^ side_str sd ^ ":" ^ hex_of_zl q
  | FData (sd, q, _) -> "Data:" ^ side_str sd ^ ":" ^ hex_of_zl q
  | FSync (sd, q) -> "Sync:" ^ side_str sd ^ ":" ^ hex_of_zl q
  | FRename (sd, q) -> "Rename:" ^ side_str sd ^ ":" ^ hex_of_zl q
  | FUnlink (sd, q) -> "Unlink:" ^ side_str sd ^ ":" ^ hex_of_zl q
  | FArchStage -> "ArchStage" | FArchWrite _ -> "ArchWrite" | FArchSync -> "ArchSync" | FArchBak -> "ArchBak"
  | FArchRename -> "ArchRename" | FArchDirSync -> "ArchDirSync"
(* `<id> T=.. HOST=.. A=<tree> B=<tree> Z=<none|p:digesthex;..|-> AE=<0|1> K=<k|all>` *)
let cbicrash_line line =
  match split_ws line with
  | id :: fields ->
    let tbl = ref [] and host = ref [] and a = ref [] and b = ref [] and z = ref None and ae = ref false and k = ref "all" in
    let tree v = if v = "-" then [] else List.map (fun e -> match String.split_on_char ':' e with
        | [p; c] -> (zl_of_hex p, zl_of_hex c) | _ -> failwith "bad tree") (split_on ';' v) in
    List.iter (fun f ->
      let (kk, v) = kv_of f in
      if kk = "T" then tbl := List.map (fun e -> match String.split_on_char ':' e with
          | [c; d] -> (zl_of_hex c, zl_of_hex d) | _ -> failwith "bad T") (split_on ';' v)
      else if kk = "HOST" then host := zl_of_hex v
      else if kk = "A" then a := tree v else if kk = "B" then b := tree v
      else if kk = "Z" then z := (if v = "none" then None else Some (tree v))
      else if kk = "AE" then ae := (v = "1") else if kk = "K" then k := v) fields;
    let s = bi_state !a !b !z in
    if !k = "all" then begin
      let st = bi_steps !tbl !host s !ae in
      Printf.printf "%s STEPS=%s\n" id (if st = [] then "-" else String.concat "," (List.map fstep_str st))
    end else begin
      let ((((fa, fb), ga), gb), fz) = bi_crash !tbl !host s !ae (nat_of_int (int_of_string !k)) in
      let keys l = let l = List.sort compare (List.map (fun (p, _) -> hex_of_zl p) l) in if l = [] then "-" else String.concat "," l in
      Printf.printf "%s A=%s;B=%s;GA=%s;GB=%s;Z=%s\n" id (tree_str fa) (tree_str fb) (keys ga) (keys gb)
        (match fz with None -> "none" | Some l ->
           let l = List.sort compare (List.map (fun (p, d) -> (hex_of_zl p, hex12_of d)) l) in
           if l = [] then "-" else String.concat "," (List.map (fun (p, d) -> p ^ "=" ^ d) l))
    end
  | _ -> ()


(* ---------------- extraction canary ----------------
   `driver canary-<kind> <cases file>` prints, for each (small) case of the usual case file, a Coq `Example` stating
   that the SAME model function applied to the SAME arguments - written out as Gallina terms - equals the value the
   extracted OCaml code computed here.  coqc then re-computes every left-hand side inside the kernel (vm_compute):
   extraction, the OCaml compiler and the value plumbing of this driver are checked on those cases. *)
let cz z = "(" ^ dec_of_z z ^ ")"
let czl l = "[" ^ String.concat "; " (List.map cz l) ^ "]"
let cbool b = if b then "true" else "false"
let copt f = function None -> "None" | Some x -> "(Some " ^ f x ^ ")"
let clist f l = "[" ^ String.concat "; " (List.map f l) ^ "]"
let canary_n = ref 0
let example lhs rhs =
  incr canary_n;
  Printf.printf "Example canary_%d : %s = %s. Proof. vm_compute. reflexivity. Qed.\n" !canary_n lhs rhs

let canary_c17 line =
  match split_ws line with
  | _ :: win :: rest ->
    let ops = match rest with [] -> "-" | o :: _ -> o in
    let nops = if ops = "-" then 0 else String.length ops / 3 in
    let w = unhex win in
    if List.length w <= 1500 && List.length w >= 1 && nops <= 1500 then begin
      let zw = List.map z_of_int w in
      let ol = List.init nops (fun i ->
        let x = z_of_int (int_of_string ("0x" ^ String.sub ops (3 * i + 1) 2)) in
        if ops.[3 * i] = 'R' then Roll x else Push x) in
      let ((r, f), _) = run_ops (rc_new zw) (frc_new zw) zw ol in
      example
        (Printf.sprintf "(let '(r, f, _) := run_ops (rc_new %s) (frc_new %s) %s %s in (rc_digest r, ra r, rb r, rcount r, frc_digest f, fcount f))"
           (czl zw) (czl zw) (czl zw) (clist (function Roll x -> "Roll " ^ cz x | Push x -> "Push " ^ cz x) ol))
        (Printf.sprintf "(%s, %s, %s, %s, %s, %s)" (cz (rc_digest r)) (cz (ra r)) (cz (rb r)) (cz (rcount r)) (cz (frc_digest f)) (cz (fcount f)))
    end
  | _ -> ()

let cop = function Copy (o, l) -> Printf.sprintf "Copy %s %s" (cz o) (cz l) | Lit d -> "Lit " ^ czl d
let canary_cdelta line =
  match split_ws line with
  | _ :: bs :: basis :: src :: _ when String.length basis + String.length src <= 12000 ->
    let bsi = int_of_string bs in
    let bsn = nat_of_int bsi in
    let basis = zl_of_hex basis and src = zl_of_hex src in
    let d = m_delta bsn (m_signature bsn basis) src in
    let r = match m_patch false true basis d with POk o -> "POk " ^ czl o | PErrBounds -> "PErrBounds" | PErrIo -> "PErrIo" | PErrChecksum -> "PErrChecksum" | PPanic -> "PPanic" in
    example
      (Printf.sprintf "(let d := m_delta (Z.to_nat %d) (m_signature (Z.to_nat %d) %s) %s in (d_block_size _ d, d_source_size _ d, d_basis_size _ d, d_ops _ d, m_patch false true %s d))"
         bsi bsi (czl basis) (czl src) (czl basis))
      (Printf.sprintf "(%s, %s, %s, %s, %s)" (cz d.d_block_size) (cz d.d_source_size) (cz d.d_basis_size) (clist cop d.d_ops) r)
  | _ -> ()

let cmeta m = Printf.sprintf "{| Plan.fm_size := %s; Plan.fm_mtime := %s |}" (cz m.fm_size) (cz m.fm_mtime)
let cmap m = clist (fun (p, fm) -> Printf.sprintf "(%s, %s)" (czl p) (cmeta fm)) m
let canary_c19 line =
  match split_ws line with
  | _ :: "G" :: pat :: text :: _ ->
    let p = chars_of_hex pat and t = chars_of_hex text in
    example (Printf.sprintf "(m_glob_match %s %s, m_gm %s %s)" (czl p) (czl t) (czl p) (czl t))
      (Printf.sprintf "(%s, %s)" (cbool (m_glob_match p t)) (cbool (m_gm p t)))
  | _ :: "E" :: rel :: n :: rest ->
    let (pats, _) = take_n (int_of_string n) rest in
    let pats = List.map chars_of_hex pats and rel = chars_of_hex rel in
    example (Printf.sprintf "(m_is_excluded %s %s, m_is_excluded_gm %s %s)" (czl rel) (clist czl pats) (czl rel) (clist czl pats))
      (Printf.sprintf "(%s, %s)" (cbool (m_is_excluded rel pats)) (cbool (m_is_excluded_gm rel pats)))
  | _ :: "P" :: del :: n :: rest ->
    let (pats, rest) = take_n (int_of_string n) rest in
    let read_map rest =
      match rest with
      | cnt :: rest ->
        let (fields, rest) = take_n (3 * int_of_string cnt) rest in
        let rec build m = function
          | p :: sz :: mt :: r -> build (m_mm_insert (chars_of_hex p) { fm_size = z_of_dec sz; fm_mtime = z_of_sdec mt } m) r
          | _ -> m in
        (build [] fields, rest)
      | [] -> failwith "short case" in
    let (src, rest) = read_map rest in
    let (dst, _) = read_map rest in
    let pats = List.map chars_of_hex pats in
    let plan = m_build_plan src dst pats (del = "1") in
    example (Printf.sprintf "(let p := m_build_plan %s %s %s %s in (Plan.transfer p, Plan.skipped p, Plan.sp_delete p))" (cmap src) (cmap dst) (clist czl pats) (cbool (del = "1")))
      (Printf.sprintf "(%s, %s, %s)" (clist czl plan.transfer) (cz plan.skipped) (clist czl plan.sp_delete))
  | _ :: "L" :: bytes :: _ when String.length bytes <= 600 ->
    let b = zl_of_hex bytes in
    example (Printf.sprintf "m_parse_listing %s" (czl b)) (cmap (m_parse_listing b))
  | _ -> ()

let cact = function
  | Noop -> "Reconcile.Noop" | PropagateAtoB -> "Reconcile.PropagateAtoB" | PropagateBtoA -> "Reconcile.PropagateBtoA"
  | ConvergeIdentical -> "Reconcile.ConvergeIdentical" | DeleteA -> "Reconcile.DeleteA" | DeleteB -> "Reconcile.DeleteB"
  | Conflict BothChanged -> "Reconcile.Conflict Reconcile.BothChanged" | Conflict DeleteVsModify -> "Reconcile.Conflict Reconcile.DeleteVsModify"
let cfp fp = Printf.sprintf "{| Reconcile.blake3 := %s; Reconcile.ftype := %s |}" (czl fp.blake3) (match fp.ftype with File -> "Reconcile.File" | Symlink -> "Reconcile.Symlink")
let cfpmap m = clist (fun (p, fp) -> Printf.sprintf "(%s, %s)" (czl p) (cfp fp)) m
let canary_c18 line =
  match split_ws line with
  | _ :: "R" :: a :: b :: z :: _ ->
    let a = parse_fp a and b = parse_fp b and z = parse_fp z in
    example (Printf.sprintf "(m_reconcile_path %s %s %s, m_table %s %s %s)" (copt cfp a) (copt cfp b) (copt cfp z) (copt cfp a) (copt cfp b) (copt cfp z))
      (Printf.sprintf "(%s, %s)" (cact (m_reconcile_path a b z)) (cact (m_table a b z)))
  | _ :: "T" :: trust :: rest ->
    let read_map rest =
      match rest with
      | cnt :: rest ->
        let (fields, rest) = take_n (2 * int_of_string cnt) rest in
        let rec build m = function
          | p :: f :: r -> (match parse_fp f with Some fp -> build (m_fp_insert (zl_of_hex p) fp m) r | None -> failwith "absent fp in a map")
          | _ -> m in
        (build [] fields, rest)
      | [] -> failwith "short case" in
    let (a, rest) = read_map rest in
    let (b, rest) = read_map rest in
    let (z, _) = read_map rest in
    let res = m_reconcile a b z (trust = "1") in
    example (Printf.sprintf "m_reconcile %s %s %s %s" (cfpmap a) (cfpmap b) (cfpmap z) (cbool (trust = "1")))
      (clist (fun (p, x) -> Printf.sprintf "(%s, %s)" (czl p) (cact x)) res)
  | _ -> ()

let canary_header () =
  print_string "From Coq Require Import ZArith List.\nFrom Copia Require Import Model.Checksum Model.Delta Extract.Wrappers.\nFrom Copia Require Model.Plan Model.Reconcile.\nImport ListNotations.\nOpen Scope Z_scope.\n"

let () =
  match Array.to_list Sys.argv with
  | _ :: "c17" :: file :: _ -> iter_lines file (c17_line false)
  | _ :: "c17-checked" :: file :: _ -> iter_lines file (c17_line true)
  | _ :: "c17-spec" :: file :: _ -> iter_lines file c17_spec
  | _ :: "cdelta" :: file :: _ -> iter_lines file cdelta_line
  | _ :: "cgreedy" :: file :: _ -> iter_lines file cgreedy_line
  | _ :: "cpatch" :: file :: _ -> iter_lines file cpatch_line
  | _ :: "chub" :: file :: _ -> iter_lines file chub_line
  | _ :: "cwire" :: file :: _ -> iter_lines file cwire_line
  | _ :: "csync" :: file :: _ -> iter_lines file csync_line
  | _ :: "cbisync" :: file :: _ -> iter_lines file cbisync_line
  | _ :: "coneway" :: file :: _ -> iter_lines file coneway_line
  | _ :: "cquote" :: file :: _ -> iter_lines file cquote_line
  | _ :: "ccrash" :: file :: _ -> iter_lines file ccrash_line
  | _ :: "cbicrash" :: file :: _ -> iter_lines file cbicrash_line
  | _ :: "crefuse" :: file :: _ -> iter_lines file (fun line -> match split_ws line with
      | id :: p :: _ -> Printf.printf "%s %s\n" id (if refused (zl_of_hex p) then "REFUSED" else "ACCEPTED")
      | _ -> ())
  | _ :: "c20" :: file :: _ -> iter_lines file c20_line
  | _ :: "c19" :: file :: _ -> iter_lines file c19_line
  | _ :: "c18" :: file :: _ -> iter_lines file c18_line
  | _ :: "canary-c17" :: file :: _ -> canary_header (); iter_lines file canary_c17
  | _ :: "canary-cdelta" :: file :: _ -> canary_header (); iter_lines file canary_cdelta
  | _ :: "canary-c19" :: file :: _ -> canary_header (); iter_lines file canary_c19
  | _ :: "canary-c18" :: file :: _ -> canary_header (); iter_lines file canary_c18
  | _ -> prerr_endline "usage: driver <kind> <cases file>"; exit 2
