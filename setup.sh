#!/bin/bash
# Build the whole framework offline from files on disk: Coq development (full .vo), extracted model + OCaml driver,
# Rust harness (both profiles) and the copia CLI from /repo's current tree.
set -e
cd "$(dirname "$0")"
export CARGO_NET_OFFLINE=true
python3 tools/gen_constants.py
python3 tools/gen_checksum.py
python3 tools/gen_logic.py
(cd coq && coq_makefile -f _CoqProject -o Makefile >/dev/null && timeout 3000 make -j16 >/dev/null)
python3 - <<'P'
import sys; sys.path.insert(0,'tools')
import vlib
for f in (vlib.build_driver, vlib.build_harness, vlib.build_cli):
    ok,msg=f()
    print(f.__name__, ok, msg[-400:])
    if not ok: sys.exit(1)
P
[ -f interpose/Makefile ] && make -C interpose >/dev/null || true
echo setup done
